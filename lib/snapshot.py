"""Snapshot of /repo's working tree + mechanical injection of Kani harness modules and arm wrappers."""
import glob
import hashlib
import os
import re
import shutil

from common import REPO, VERIF, read, write, scratch

KANI_DIR = os.path.join(VERIF, "contracts", "kani")

# file-key -> path (relative to the snapshot root) of the source file the module is appended to
KANI_TARGETS = {
    "inflate_core": "miniz_oxide/src/inflate/core.rs",
    "inflate_stream": "miniz_oxide/src/inflate/stream.rs",
    "inflate_mod": "miniz_oxide/src/inflate/mod.rs",
    "inflate_outbuf": "miniz_oxide/src/inflate/output_buffer.rs",
    "deflate_core": "miniz_oxide/src/deflate/core.rs",
    "deflate_stream": "miniz_oxide/src/deflate/stream.rs",
    "deflate_mod": "miniz_oxide/src/deflate/mod.rs",
    "deflate_zlib": "miniz_oxide/src/deflate/zlib.rs",
    "deflate_stored": "miniz_oxide/src/deflate/stored.rs",
    "shared": "miniz_oxide/src/shared.rs",
    "capi_lib": "src/lib.rs",
    "capi_lib_oxide": "src/lib_oxide.rs",
    "capi_c_export": "src/c_export.rs",
    "capi_tinfl": "src/tinfl.rs",
    "capi_tdef": "src/tdef.rs",
}

COPY = ["Cargo.toml", "Cargo.lock", "src", "miniz_oxide", "miniz_oxide_test"]


class Infra(Exception):
    """Infrastructure problem (lost anchor, unsupported construct...) -> exit 2, never a VIOLATION."""


def match_brace(text, i, open_ch="{", close_ch="}"):
    """text[i] == open_ch; return index just past the matching close. Skips strings, chars, comments."""
    assert text[i] == open_ch, (text[i - 10:i + 10])
    depth = 0
    n = len(text)
    while i < n:
        c = text[i]
        if c == "/" and text.startswith("//", i):
            j = text.find("\n", i)
            i = n if j < 0 else j
            continue
        if c == "/" and text.startswith("/*", i):
            j = text.find("*/", i + 2)
            i = n if j < 0 else j + 2
            continue
        if c == '"':
            i += 1
            while i < n and text[i] != '"':
                i += 2 if text[i] == "\\" else 1
            i += 1
            continue
        if c == "'":
            # char literal or lifetime
            m = re.match(r"'(\\.[^']*|[^'\\])'", text[i:])
            if m:
                i += m.end()
                continue
            i += 1
            continue
        if c == "b" and text.startswith("b'", i):
            m = re.match(r"b'(\\.[^']*|[^'\\])'", text[i:])
            if m:
                i += m.end()
                continue
        if c == open_ch:
            depth += 1
        elif c == close_ch:
            depth -= 1
            if depth == 0:
                return i + 1
        i += 1
    raise Infra("unbalanced %s at %d" % (open_ch, i))


ARM_RE = re.compile(r"^\s*(\w+)\s*=>\s*generate_state!\(\s*state\s*,\s*'state_machine\s*,\s*\{", re.M)

GENERATE_STATE_HASH = "pinned in arms_macro.sha256"


def extract_arms(core_src):
    """Return {state_name: body_text (with braces)} for every generate_state! arm of decompress_with_limit."""
    start = core_src.find("pub fn decompress_with_limit(")
    if start < 0:
        raise Infra("lost anchor: decompress_with_limit")
    arms = {}
    for m in ARM_RE.finditer(core_src, start):
        brace = m.end() - 1
        end = match_brace(core_src, brace)
        arms[m.group(1)] = core_src[brace:end]
        # sanity: after the body we expect "),"
        tail = core_src[end:end + 8].strip()
        if not tail.startswith(")"):
            raise Infra("arm %s: unexpected text after body: %r" % (m.group(1), tail))
    if len(arms) < 20:
        raise Infra("lost anchor: only %d generate_state! arms found" % len(arms))
    return arms


def macro_text(core_src):
    i = core_src.find("macro_rules! generate_state")
    if i < 0:
        raise Infra("lost anchor: generate_state! macro")
    b = core_src.find("{", i)
    return core_src[i:match_brace(core_src, b)]


def arm_wrappers(core_src):
    arms = extract_arms(core_src)
    out = ["\n// ---- mechanically generated arm wrappers (lib/snapshot.py) ----\n"]
    for name, body in arms.items():
        out.append(
            "#[cfg(kani)] #[allow(unused_mut, unused_variables, unused_assignments, clippy::all)]\n"
            "fn verif_arm_%s<'a, 'b>(r: &mut DecompressorOxide, mut l: LocalVars, mut in_iter: InputWrapper<'a>,\n"
            "    mut out_buf: OutputBuffer<'b>, flags: u32, out_buf_size_mask: usize, in_buf: &'a [u8], mut state: State)\n"
            "    -> (Action, LocalVars, InputWrapper<'a>, OutputBuffer<'b>, State)\n"
            "{ let a: Action = %s; (a, l, in_iter, out_buf, state) }\n" % (name, body))
    return "".join(out), sorted(arms)


def make_snapshot(dest=None):
    """Copy the working tree of /repo (the crates only) and inject all Kani contract modules."""
    dest = dest or os.path.join(scratch(), "snap")
    shutil.rmtree(dest, ignore_errors=True)
    os.makedirs(dest)
    for c in COPY:
        s = os.path.join(REPO, c)
        d = os.path.join(dest, c)
        if os.path.isdir(s):
            shutil.copytree(s, d, ignore=shutil.ignore_patterns("target", "*.orig", "*.rej"))
        elif os.path.exists(s):
            shutil.copy2(s, d)
        else:
            raise Infra("missing in repo: " + c)
    shutil.copy2(os.path.join(dest, "Cargo.lock"), os.path.join(dest, "miniz_oxide", "Cargo.lock"))
    for sub in ("", "miniz_oxide"):
        write(os.path.join(dest, sub, ".cargo", "config.toml"), "[net]\noffline = true\n")
    return dest


def source_hash(snap):
    """Hash of the pristine (un-injected) crate sources of a snapshot."""
    h = hashlib.sha256()
    for rel in sorted(set(KANI_TARGETS.values()) | {"miniz_oxide/src/lib.rs", "miniz_oxide/Cargo.toml", "Cargo.toml",
                                                    "miniz_oxide/src/deflate/buffer.rs", "src/unmangle.rs"}):
        p = os.path.join(snap, rel)
        h.update(rel.encode())
        if os.path.exists(p):
            with open(p, "rb") as f:
                h.update(f.read())
    return h.hexdigest()


def contracts_hash():
    h = hashlib.sha256()
    for p in sorted(glob.glob(os.path.join(KANI_DIR, "*.rs"))):
        h.update(os.path.basename(p).encode())
        with open(p, "rb") as f:
            h.update(f.read())
    return h.hexdigest()


def inject_kani(snap):
    """Append contracts/kani/<key>.rs to its target file; generate arm wrappers. Returns info dict."""
    info = {"injected": [], "arms": []}
    core_path = os.path.join(snap, KANI_TARGETS["inflate_core"])
    core_src = read(core_path)
    wrappers, arms = arm_wrappers(core_src)
    info["arms"] = arms
    pinned = read(os.path.join(KANI_DIR, "arms_macro.sha256")).strip() if os.path.exists(
        os.path.join(KANI_DIR, "arms_macro.sha256")) else None
    mh = hashlib.sha256(macro_text(core_src).encode()).hexdigest()
    info["macro_hash"] = mh
    if pinned and pinned != mh:
        raise Infra("generate_state! macro text changed (hash %s != pinned %s): arm wrappers need review" % (mh[:12], pinned[:12]))
    spec = read(os.path.join(KANI_DIR, "spec.rs")) if os.path.exists(os.path.join(KANI_DIR, "spec.rs")) else ""
    for key, rel in KANI_TARGETS.items():
        cf = os.path.join(KANI_DIR, key + ".rs")
        if not os.path.exists(cf):
            continue
        path = os.path.join(snap, rel)
        if not os.path.exists(path):
            raise Infra("lost anchor: file %s" % rel)
        src = read(path)
        add = "\n\n// ==== injected by /verif (contracts/kani/%s.rs) ====\n" % key
        if key == "inflate_core":
            add += wrappers
        body = read(cf).replace("//@SPEC@", spec)
        add += body
        write(path, src + add)
        info["injected"].append(key)
    return info
