"""Run Kani harnesses (one cargo-kani process per harness, pool of workers each with its own target dir)."""
import os
import queue
import re
import threading
import time

from common import run, sha, cache_get, cache_put, scratch, MAX_WORKERS, MEM_LIMIT_KB, write

KANI_VERSION = "kani-0.68.0/cbmc-6.11.0/runner-2"
BASE_ARGS = ["cargo", "kani", "-Z", "function-contracts", "-Z", "stubbing"]

CHECK_RE = re.compile(
    r"Check \d+: (?P<id>[^\n]+?)\s*\n\s*- Status: (?P<status>\w+)\s*\n\s*- Description: \"+(?P<desc>[^\n]*?)\"+[ \t]*(?:\n\s*- Location: (?P<loc>[^\n]*))?")


def crate_dir(snap, crate):
    return snap if crate == "capi" else os.path.join(snap, "miniz_oxide")


def parse(out):
    checks = [m.groupdict() for m in CHECK_RE.finditer(out)]
    verdict = None
    if "VERIFICATION:- SUCCESSFUL" in out:
        verdict = "SUCCESSFUL"
    elif "VERIFICATION:- FAILED" in out:
        verdict = "FAILED"
    t = re.search(r"Verification Time: ([0-9.]+)s", out)
    stubs = re.findall(r"- Stub: ([^\n]+)", out)
    return checks, verdict, (float(t.group(1)) if t else None), stubs


def classify(h, res):
    """Turn raw run result into a harness verdict dict."""
    out = res["out"]
    checks, verdict, vtime, stubs = parse(out)
    v = dict(harness=h["name"], wall_s=round(res["wall"], 2), solver_s=vtime, peak_mb=res["peak_kb"] // 1024,
             n_checks=len(checks), status=None, reason=None, failed=[], covers={}, obl={}, fresh=True, stubs=stubs)
    for c in checks:
        d = c["desc"]
        if d.startswith("COV:"):
            v["covers"][d] = c["status"]
    if res["killed"]:
        v["status"], v["reason"] = "undecided", res["killed"]
        return v
    m139 = re.search(r"CBMC failed with status (\d+)", out)
    if m139 and not [c for c in checks if c["status"] == "FAILURE"]:
        v["status"], v["reason"] = "undecided", "tool-crash: " + m139.group(0)
        return v
    if verdict is None:
        v["status"] = "undecided"
        tail = out[-1500:]
        v["reason"] = "tool-error: " + (re.findall(r"error[^\n]*", out)[:3] and "; ".join(re.findall(r"error[^\n]*", out)[:3]) or tail[-300:])
        return v
    fails = [c for c in checks if c["status"] == "FAILURE"]
    unwind = [c for c in fails if "unwinding assertion" in c["desc"]]
    real = [c for c in fails if "unwinding assertion" not in c["desc"]]
    # named obligations
    for c in checks:
        d = c["desc"]
        if d.startswith("OBL:"):
            tag = d.split()[0]
            st = c["status"]
            prev = v["obl"].get(tag)
            rank = {"FAILURE": 3, "UNDETERMINED": 2, "SUCCESS": 1, "UNREACHABLE": 0}
            if prev is None or rank.get(st, 2) > rank.get(prev, 2):
                v["obl"][tag] = st
    if verdict == "SUCCESSFUL":
        bad_cov = [k for k, s in v["covers"].items() if s != "SATISFIED"]
        if bad_cov:
            v["status"], v["reason"] = "undecided", "vacuity: cover not satisfied: " + ", ".join(bad_cov)
        elif len(checks) == 0:
            v["status"], v["reason"] = "undecided", "vacuity: zero checks generated"
        else:
            v["status"] = "discharged"
        return v
    # FAILED
    internal = [c for c in real if not c["desc"].startswith("OBL:") and "::verif_" in (c.get("loc") or "")]
    if internal:
        v["status"], v["reason"] = "undecided", "harness-internal check failed (bug in /verif harness code, not in /repo): %s at %s" % (
            internal[0]["desc"], internal[0].get("loc"))
    elif real:
        v["status"] = "failed"
        v["failed"] = [dict(desc=c["desc"], loc=c.get("loc"), id=c["id"]) for c in real]
    elif unwind:
        v["status"], v["reason"] = "undecided", "unwinding bound too small: " + "; ".join(sorted(set(c["id"] for c in unwind))[:3])
    else:
        bad_cov = [k for k, s in v["covers"].items() if s != "SATISFIED"]
        v["status"], v["reason"] = "undecided", "FAILED without failing check (covers: %s)" % bad_cov
    return v


_HOLDER = {}


def full_name(h):
    """Full module path of a harness: derived from the contract file that defines it."""
    import snapshot, glob
    from common import read
    if not _HOLDER:
        for key, rel in snapshot.KANI_TARGETS.items():
            p = os.path.join(snapshot.KANI_DIR, key + ".rs")
            if os.path.exists(p):
                for m in re.finditer(r"#\[kani::proof.*?\bfn\s+(\w+)", read(p), re.S):
                    rel2 = rel.replace("miniz_oxide/src/", "").replace("src/", "")[:-3]
                    mod = "::".join(x for x in rel2.split("/") if x not in ("lib", "mod"))
                    _HOLDER[m.group(1)] = (mod + "::" if mod else "") + "verif_" + key + "::" + m.group(1)
    return _HOLDER.get(h["name"], h["name"])


def own_contract_hash(h):
    """hash of the contract file that defines the harness + the shared spec (edits to other contract files cannot change
    this harness's verdict; if they break compilation the run is a tool error, which is never cached)"""
    import snapshot
    from common import read
    full = full_name(h)
    m = re.search(r"verif_(\w+)::%s$" % re.escape(h["name"]), full)
    parts = []
    if m:
        for f in (m.group(1) + ".rs", "spec.rs"):
            p = os.path.join(snapshot.KANI_DIR, f)
            if os.path.exists(p):
                parts.append(read(p))
    return sha(*parts) if parts else None


def harness_key(h, src_hash, contracts_hash):
    return sha("kani", KANI_VERSION, src_hash, own_contract_hash(h) or contracts_hash, h["name"], h["crate"], " ".join(h.get("args", [])),
               str(h.get("timeout", "")))


def run_harnesses(snap, harnesses, src_hash, contracts_hash, logdir, progress=None):
    """harnesses: list of dict(name, crate, args?, timeout?). Returns {name: verdict}."""
    results = {}
    todo = []
    for h in harnesses:
        k = harness_key(h, src_hash, contracts_hash)
        h["_key"] = k
        c = cache_get(k)
        if c is not None:
            c["fresh"] = False
            results[h["name"]] = c
        else:
            todo.append(h)
    for h in harnesses:
        h["_full"] = full_name(h)  # resolve before the worker threads start
    todo.sort(key=lambda h: -h.get("cost", 10))
    q = queue.Queue()
    for h in todo:
        q.put(h)
    lock = threading.Lock()
    nworkers = min(MAX_WORKERS, max(1, len(todo)))

    def worker(wid):
        tdirs = {}
        while True:
            try:
                h = q.get_nowait()
            except queue.Empty:
                return
            tdir = tdirs.setdefault(h["crate"], os.path.join(scratch(), "target-%d-%s" % (wid, h["crate"])))
            cmd = BASE_ARGS + ["--target-dir", tdir, "--harness", h.get("_full") or full_name(h), "--exact"] + h.get("args", [])
            res = run(cmd, cwd=crate_dir(snap, h["crate"]), timeout=int(os.environ.get("VERIF_DEV_TIMEOUT", h.get("timeout", 600))), mem_kb=MEM_LIMIT_KB,
                      log=os.path.join(logdir, h["name"].replace("::", "__") + ".log"))
            v = classify(h, res)
            if v["status"] in ("discharged", "failed"):
                cache_put(h["_key"], v)
            with lock:
                results[h["name"]] = v
                if progress:
                    progress(v)

    ths = [threading.Thread(target=worker, args=(i,)) for i in range(nworkers)]
    for t in ths:
        t.start()
    for t in ths:
        t.join()
    return results


def playback(snap, h, logdir):
    """Re-run a failed harness with concrete playback; return the generated test text or None."""
    tdir = os.path.join(scratch(), "target-pb-%s" % h["crate"])
    cmd = BASE_ARGS + ["--target-dir", tdir, "--harness", full_name(h), "--exact", "-Z", "concrete-playback",
                       "--concrete-playback=print"] + h.get("args", [])
    res = run(cmd, cwd=crate_dir(snap, h["crate"]), timeout=int(os.environ.get("VERIF_PLAYBACK_TIMEOUT", "300")), mem_kb=MEM_LIMIT_KB,
              log=os.path.join(logdir, h["name"].replace("::", "__") + ".playback.log"))
    m = re.findall(r"```\n(.*?)```", res["out"], re.S)
    return "\n".join(m) if m else None
