"""Shared helpers for vcheck: paths, scratch, hashing, process running with watchdog."""
import atexit
import hashlib
import json
import os
import shutil
import signal
import subprocess
import sys
import threading
import time

VERIF = os.path.dirname(os.path.dirname(os.path.abspath(__file__)))
REPO = os.environ.get("VERIF_REPO", "/repo")
SCRATCH_ROOT = os.environ.get("VERIF_SCRATCH", "/var/tmp")
CACHE_DIR = os.path.join(VERIF, ".cache")
NOCACHE = os.environ.get("VERIF_NOCACHE", "") not in ("", "0")
MAX_WORKERS = int(os.environ.get("VERIF_JOBS", "12"))
MEM_LIMIT_KB = int(os.environ.get("VERIF_MEM_GB", "12")) * 1024 * 1024

_scratch = None


def scratch():
    """Per-process scratch dir outside /repo and /verif, removed at exit."""
    global _scratch
    if _scratch is None:
        _scratch = os.path.join(SCRATCH_ROOT, "vcheck-%d" % os.getpid())
        shutil.rmtree(_scratch, ignore_errors=True)
        os.makedirs(_scratch)
        atexit.register(cleanup)
        for s in (signal.SIGTERM, signal.SIGINT, signal.SIGHUP):
            signal.signal(s, _on_signal)
    return _scratch


def cleanup():
    global _scratch
    if _scratch and os.environ.get("VERIF_KEEP", "") == "":
        shutil.rmtree(_scratch, ignore_errors=True)
    _scratch = None


def _on_signal(signum, frame):
    _kill_children()
    cleanup()
    sys.exit(2)


_children = set()
_children_lock = threading.Lock()


def _kill_children():
    with _children_lock:
        for p in list(_children):
            try:
                os.killpg(p.pid, signal.SIGKILL)
            except Exception:
                pass


def sha(*parts):
    h = hashlib.sha256()
    for p in parts:
        if isinstance(p, str):
            p = p.encode()
        h.update(p)
        h.update(b"\0")
    return h.hexdigest()


def read(path):
    with open(path, "r", encoding="utf-8") as f:
        return f.read()


def write(path, text):
    os.makedirs(os.path.dirname(path), exist_ok=True)
    with open(path, "w", encoding="utf-8") as f:
        f.write(text)


def tree_hash(root, exts=(".rs", ".toml", ".lock")):
    """Hash of all source files under root (sorted, content + relative path)."""
    h = hashlib.sha256()
    for dp, dn, fn in os.walk(root):
        dn[:] = sorted(d for d in dn if d not in ("target", ".git", "fuzz", "benches"))
        for f in sorted(fn):
            if f.endswith(exts):
                p = os.path.join(dp, f)
                h.update(os.path.relpath(p, root).encode())
                h.update(b"\0")
                with open(p, "rb") as fh:
                    h.update(fh.read())
                h.update(b"\0")
    return h.hexdigest()


def _rss_tree_kb(pid):
    """Max RSS over the process group's processes (largest single process)."""
    best = 0
    try:
        out = subprocess.run(["ps", "-o", "rss=,pgid=", "-e"], capture_output=True, text=True).stdout
        for line in out.splitlines():
            a = line.split()
            if len(a) == 2 and a[1] == str(pid):
                best = max(best, int(a[0]))
    except Exception:
        pass
    return best


def run(cmd, cwd=None, env=None, timeout=None, mem_kb=None, log=None):
    """Run cmd in its own process group. Returns dict(rc, out, wall, killed=None|'timeout'|'memory', peak_kb)."""
    e = dict(os.environ)
    e["CARGO_NET_OFFLINE"] = "true"
    if env:
        e.update(env)
    t0 = time.time()

    def _big_stack():
        # CBMC recurses deeply over large expressions; with the default 8 MiB stack it dies with SIGSEGV (status 139)
        try:
            import resource
            soft, hard = resource.getrlimit(resource.RLIMIT_STACK)
            resource.setrlimit(resource.RLIMIT_STACK, (hard, hard))
        except Exception:
            pass

    p = subprocess.Popen(cmd, cwd=cwd, env=e, stdout=subprocess.PIPE, stderr=subprocess.STDOUT,
                         text=True, start_new_session=True, errors="replace", preexec_fn=_big_stack)
    with _children_lock:
        _children.add(p)
    killed = [None]
    peak = [0]
    done = threading.Event()

    def watch():
        while not done.wait(2.0):
            if timeout and time.time() - t0 > timeout:
                killed[0] = "timeout"
            elif mem_kb:
                r = _rss_tree_kb(p.pid)
                peak[0] = max(peak[0], r)
                if r > mem_kb:
                    killed[0] = "memory"
            if killed[0]:
                try:
                    os.killpg(p.pid, signal.SIGKILL)
                except Exception:
                    pass
                return

    th = threading.Thread(target=watch, daemon=True)
    th.start()
    out, _ = p.communicate()
    done.set()
    with _children_lock:
        _children.discard(p)
    wall = time.time() - t0
    if log:
        write(log, out)
    return dict(rc=p.returncode, out=out, wall=wall, killed=killed[0], peak_kb=peak[0])


def cache_get(key):
    if NOCACHE:
        return None
    p = os.path.join(CACHE_DIR, key + ".json")
    if os.path.exists(p):
        try:
            return json.loads(read(p))
        except Exception:
            return None
    return None


def cache_put(key, val):
    os.makedirs(CACHE_DIR, exist_ok=True)
    tmp = os.path.join(CACHE_DIR, key + ".json.%d" % os.getpid())
    with open(tmp, "w") as f:
        json.dump(val, f)
    os.replace(tmp, os.path.join(CACHE_DIR, key + ".json"))
