"""Verus route: extract real functions verbatim from the snapshot, splice contracts, run `verus file.rs`.

Template format (contracts/verus/<unit>.rs): plain Verus text (spec fns, lemmas ...) plus directives

    //@extract fn NAME [in impl TYPE] from REL/PATH.rs        (also: const NAME / struct NAME / enum NAME)
    //@  rename RET                                            optional: `-> T` becomes `-> (RET: T)`
    //@  contract                                               lines until the next //@ go between signature and body
    //@  loop K                                                 lines go between the header of the K-th loop and its `{`
    //@  before "ANCHOR"                                        lines are inserted before the statement containing ANCHOR
    //@  after "ANCHOR"                                         ... after the line containing ANCHOR
    //@end

What extraction drops / rewrites (complete list, reported in the evidence):
  * outer attributes and doc comments of the extracted item;
  * `cmp::min(`/`cmp::max(` -> `vmin(`/`vmax(` (prelude wrappers with an assumed std contract);
  * `debug_assert!(`/`debug_assert_eq!(a, b)` -> `assert!(`/`assert!(a == b)`;
  * `-> T` -> `-> (RET: T)` when `rename` is given (names the return value for the postcondition);
  * visibility qualifiers `pub(crate)`/`pub` are kept; a `pub(crate) const` item is emitted as a private `const`; nothing else is touched.
A lost anchor, a changed loop count or an item that cannot be found is an infrastructure error (exit 2).
"""
import json
import os
import re
import time

import snapshot
from common import VERIF, read, write, run, sha, cache_get, cache_put, scratch
from snapshot import Infra, match_brace

VERUS_DIR = os.path.join(VERIF, "contracts", "verus")
VERUS_VERSION = "verus-0.2026.09.13/runner-1"
DROPS = [
    "outer attributes (#[inline], #[cfg(..)], #[rustfmt::skip]) and doc comments of each extracted item",
    "cmp::min/cmp::max calls renamed to the prelude wrappers vmin/vmax (assumed std contract r == min/max)",
    "debug_assert!(e) -> assert!(e), debug_assert_eq!(a,b) -> assert!(a == b) (debug-profile panics become obligations)",
    "return type `-> T` written `-> (name: T)` where the contract names the result",
    "a `pub(crate) const NAME` item is emitted as a private `const NAME` (visibility only; Verus rejects pub(crate) consts, and the unit is one file)",
]


def find_item(src, kind, name, impl_of=None):
    """Return (start, end) of the item text (from its first token, excluding attributes/docs)."""
    scope_start, scope_end = 0, len(src)
    if impl_of:
        m = re.search(r"^impl(?:<[^>]*>)?\s+(?:[\w:]+\s+for\s+)?%s\b[^{]*\{" % re.escape(impl_of), src, re.M)
        found = None
        for m in re.finditer(r"^impl(?:<[^>]*>)?\s+(?:[\w:<>', ]+\s+for\s+)?%s\b[^{]*\{" % re.escape(impl_of), src, re.M):
            b = m.end() - 1
            e = match_brace(src, b)
            if re.search(r"\bfn\s+%s\b" % re.escape(name), src[b:e]):
                found = (b, e)
                break
        if not found:
            raise Infra("lost anchor: impl %s containing fn %s" % (impl_of, name))
        scope_start, scope_end = found
    if kind == "fn":
        pat = r"^[ \t]*((?:pub(?:\([^)]*\))?\s+)?(?:const\s+)?fn\s+%s\b)" % re.escape(name)
    elif kind == "const":
        pat = r"^[ \t]*((?:pub(?:\([^)]*\))?\s+)?const\s+%s\b)" % re.escape(name)
    elif kind in ("struct", "enum"):
        pat = r"^[ \t]*((?:pub(?:\([^)]*\))?\s+)?%s\s+%s\b)" % (kind, re.escape(name))
    else:
        raise Infra("unknown item kind " + kind)
    ms = [m for m in re.finditer(pat, src[scope_start:scope_end], re.M)]
    # skip cfg(not(target_pointer_width = "64")) variants: take the first whose preceding attrs do not exclude x86_64/64-bit
    for m in ms:
        s = scope_start + m.start(1)
        pre = src[max(0, s - 400):s]
        attrs = re.findall(r"#\[cfg\(([^\]]*)\)\]\s*(?:#\[[^\]]*\]\s*)*$", pre.rstrip() + "\n")
        last_attrs = re.findall(r"#\[cfg\((.*?)\)\]", "\n".join(pre.rstrip().splitlines()[-6:]))
        skip = False
        for a in last_attrs:
            if 'not(target_pointer_width = "64")' in a or ("not(feature = \"with-alloc\")" in a and "any(" in a) or a.strip().startswith("any(\n") or 'feature = "rustc-dep-of-std"' in a and "not(" not in a:
                skip = True
        if skip:
            continue
        if kind == "const":
            # terminating `;` at bracket depth 0 (array types `[u8; 256]` carry one inside)
            i, depth = s, 0
            while i < len(src) and not (src[i] == ";" and depth == 0):
                depth += (src[i] in "([{") - (src[i] in ")]}")
                i += 1
            e = i + 1
        else:
            # find body brace (skip parens / where clauses); struct may end with ';'
            i = s
            depth = 0
            while i < len(src):
                c = src[i]
                if c in "([":
                    depth += 1
                elif c in ")]":
                    depth -= 1
                elif c == "{" and depth == 0:
                    break
                elif c == ";" and depth == 0:
                    break
                i += 1
            e = match_brace(src, i) if src[i] == "{" else i + 1
        return s, e
    raise Infra("lost anchor: %s %s%s" % (kind, name, " in impl " + impl_of if impl_of else ""))


LOOP_RE = re.compile(r"\b(while|loop|for)\b")


def loop_headers(body):
    """positions (start_of_keyword, index_of_open_brace) of loops in body, in textual order, ignoring strings/comments"""
    res = []
    i = 0
    n = len(body)
    while i < n:
        if body.startswith("//", i):
            j = body.find("\n", i)
            i = n if j < 0 else j
            continue
        if body[i] == '"':
            i += 1
            while i < n and body[i] != '"':
                i += 2 if body[i] == "\\" else 1
            i += 1
            continue
        m = LOOP_RE.match(body, i)
        if m and (i == 0 or not (body[i - 1].isalnum() or body[i - 1] == "_")):
            # find the `{` that opens the loop body: first `{` at paren depth 0 after the header expression
            j = m.end()
            depth = 0
            while j < n:
                c = body[j]
                if c in "([":
                    depth += 1
                elif c in ")]":
                    depth -= 1
                elif c == "{" and depth == 0:
                    break
                j += 1
            res.append((i, j))
            i = m.end()
            continue
        i += 1
    return res


def rewrite(text, mintype="usize"):
    text = re.sub(r"\b(?:core::)?cmp::min\(", "vmin_%s(" % mintype, text)
    text = re.sub(r"\b(?:core::)?cmp::max\(", "vmax_%s(" % mintype, text)
    text = re.sub(r"\bdebug_assert_eq!\(([^,;]+),\s*([^;]+?)\);", r"assert!(\1 == \2);", text)
    text = text.replace("debug_assert!(", "assert!(")
    return text


def build_item(snap, d):
    src = read(os.path.join(snap, d["file"]))
    s, e = find_item(src, d["kind"], d["name"], d.get("impl"))
    text = src[s:e]
    raw = text
    if d["kind"] == "const" and text.startswith("pub(crate) const "):
        text = text[len("pub(crate) "):]  # Verus rejects a pub(crate) const ("marked open but not pub"); one file, so private == crate
    if d["kind"] != "fn":
        return rewrite(text, d.get("mintype", "usize")), raw
    # split signature / body
    i = 0
    depth = 0
    while i < len(text):
        c = text[i]
        if c in "([":
            depth += 1
        elif c in ")]":
            depth -= 1
        elif c == "{" and depth == 0:
            break
        i += 1
    sig, body = text[:i].rstrip(), text[i:]
    if d.get("rename"):
        m = re.search(r"->\s*(.+)$", sig, re.S)
        if not m:
            raise Infra("fn %s has no return type to name" % d["name"])
        sig = sig[:m.start()] + "-> (%s: %s)" % (d["rename"], m.group(1).strip())
    # loops (insert from last to first so offsets stay valid)
    heads = loop_headers(body)
    for k in sorted(d.get("loops", {}), reverse=True):
        if k < 1 or k > len(heads):
            raise Infra("fn %s: contract refers to loop #%d but the function has %d loops" % (d["name"], k, len(heads)))
        _, br = heads[k - 1]
        body = body[:br] + "\n" + d["loops"][k] + "\n" + body[br:]
    for anchor, where, ins in d.get("inserts", []):
        p = body.find(anchor)
        if p < 0:
            raise Infra("fn %s: lost anchor %r" % (d["name"], anchor))
        if body.find(anchor, p + 1) >= 0:
            raise Infra("fn %s: anchor %r is ambiguous" % (d["name"], anchor))
        if where == "before":
            ls = body.rfind("\n", 0, p) + 1
            body = body[:ls] + ins + "\n" + body[ls:]
        else:
            le = body.find("\n", p)
            body = body[:le + 1] + ins + "\n" + body[le + 1:]
    out = sig + "\n" + d.get("contract", "") + "\n" + body
    if d.get("impl"):
        out = "impl%s %s%s {\n%s\n}" % (d.get("impl_generics", ""), d["impl"], d.get("impl_generics_use", ""), out)
    return rewrite(out, d.get("mintype", "usize")), raw


def parse_template(path):
    lines = read(path).splitlines()
    out = []  # list of ("text", str) | ("extract", dict)
    i = 0
    cur = None
    section = None
    buf = []

    def flush_section():
        nonlocal section, buf
        if cur is None or section is None:
            return
        text = "\n".join(buf)
        if section[0] == "contract":
            cur["contract"] = text
        elif section[0] == "loop":
            cur.setdefault("loops", {})[section[1]] = text
        elif section[0] in ("before", "after"):
            cur.setdefault("inserts", []).append((section[1], section[0], text))
        section, buf = None, []

    for ln in lines:
        st = ln.strip()
        if st.startswith("//@extract "):
            m = re.match(r"//@extract\s+(fn|const|struct|enum)\s+(\w+)(?:\s+in\s+impl(<[^>]*>)?\s+([\w]+)(<[^>]*>)?)?\s+from\s+(\S+)", st)
            if not m:
                raise Infra("bad directive: " + st)
            cur = dict(kind=m.group(1), name=m.group(2), impl=m.group(4), impl_generics=m.group(3) or "", impl_generics_use=m.group(5) or "", file=m.group(6))
            section, buf = None, []
            continue
        if cur is not None and st.startswith("//@"):
            flush_section()
            if st == "//@end":
                out.append(("extract", cur))
                cur = None
                continue
            m = re.match(r'//@\s*mintype\s+(\w+)', st)
            if m:
                cur["mintype"] = m.group(1)
                continue
            m = re.match(r'//@\s*rename\s+(\w+)', st)
            if m:
                cur["rename"] = m.group(1)
                continue
            if re.match(r'//@\s*contract', st):
                section = ("contract",)
                continue
            m = re.match(r'//@\s*loop\s+(\d+)', st)
            if m:
                section = ("loop", int(m.group(1)))
                continue
            m = re.match(r'//@\s*(before|after)\s+"(.*)"\s*$', st)
            if m:
                section = (m.group(1), m.group(2))
                continue
            raise Infra("bad directive: " + st)
        if cur is not None:
            buf.append(ln)
        else:
            out.append(("text", ln))
    if cur is not None:
        raise Infra("unterminated //@extract in " + path)
    return out


def assemble(snap, unit):
    tpl = parse_template(os.path.join(VERUS_DIR, unit + ".rs"))
    prelude = read(os.path.join(VERUS_DIR, "trusted_prelude.rs"))
    parts = ["use vstd::prelude::*;\nverus! {\n", prelude, "\n"]
    fns = []
    raws = []
    for kind, v in tpl:
        if kind == "text":
            parts.append(v + "\n")
        else:
            text, raw = build_item(snap, v)
            parts.append("// ---- extracted verbatim from %s: %s %s ----\n" % (v["file"], v["kind"], v["name"]))
            parts.append(text + "\n")
            fns.append(("%s::%s" % (v["impl"], v["name"]) if v.get("impl") else v["name"]) + " (" + v["kind"] + ")")
            raws.append(raw)
    parts.append("\n} // verus!\nfn main() {}\n")
    return "".join(parts), fns, raws


def run_units(snap, units, logdir, log):
    results = {}
    for u in units:
        name = u["name"]
        t0 = time.time()
        try:
            text, fns, raws = assemble(snap, name)
        except Infra as e:
            results[name] = dict(status="undecided", reason="infrastructure: %s" % e, obligations=[
                dict(id="V:%s (unit not assembled)" % name, harness=name, unit=name, engine="verus", strength="U", status="undecided", reason=str(e))],
                wall_s=0, trusted=[], raw="")
            log("  [verus] %-40s UNDECIDED %s" % (name, e))
            continue
        key = sha("verus", VERUS_VERSION, text, " ".join(u.get("args", [])))
        c = cache_get(key)
        if c is not None:
            c["fresh"] = False
            results[name] = c
            log("  [verus] %-40s reused cached verdict (same extracted text): %s" % (name, c["status"].upper()))
            continue
        d = os.path.join(scratch(), "verus")
        os.makedirs(d, exist_ok=True)
        f = os.path.join(d, name.replace("-", "_") + ".rs")
        write(f, text)
        write(os.path.join(logdir, name + ".verus.rs"), text)
        res = run(["verus", f, "--output-json", "--time", "--multiple-errors", "50"] + u.get("args", []), cwd=d, timeout=u.get("timeout", 300))
        write(os.path.join(logdir, name + ".verus.log"), res["out"])
        out = res["out"]
        js = None
        i = out.find("{")
        # the JSON document is on stdout, diagnostics on stderr (merged): find the outermost JSON object
        try:
            dec = json.JSONDecoder()
            while i >= 0:
                try:
                    js, _ = dec.raw_decode(out[i:])
                    if isinstance(js, dict) and "verification-results" in js:
                        break
                    js = None
                except ValueError:
                    pass
                i = out.find("{", i + 1)
        except Exception:
            js = None
        r = dict(unit=name, wall_s=round(time.time() - t0, 2), fresh=True, functions=fns, drops=DROPS, raw=out[-6000:],
                 trusted=["Verus/Z3; assumed std contracts in contracts/verus/trusted_prelude.rs (assume_specification / external_body wrappers)"])
        if res["killed"] or js is None:
            r["status"] = "undecided"
            r["reason"] = res["killed"] or ("tool-error: " + "; ".join(re.findall(r"error[^\n]*", out)[:3]))
            r["obligations"] = [dict(id="V:%s" % name, harness=name, unit=name, engine="verus", strength="U", status="undecided", reason=r["reason"])]
            results[name] = r
            log("  [verus] %-40s %6.1fs UNDECIDED %s" % (name, r["wall_s"], r["reason"][:300]))
            continue
        vr = js["verification-results"]
        r["verified"], r["errors"] = vr.get("verified", 0), vr.get("errors", 0)
        r["smt_ms"] = js.get("times-ms", {}).get("smt", {}).get("total")
        fb = []
        for mt in js.get("times-ms", {}).get("smt", {}).get("smt-run-module-times", []):
            fb += mt.get("function-breakdown", [])
        obl = []
        compile_error = vr.get("encountered-vir-error") or ("error" in out and not fb and not vr.get("success"))
        if compile_error and not fb:
            r["status"] = "undecided"
            r["reason"] = "unsupported construct / front-end error: " + "; ".join(re.findall(r"error[^\n]*", out)[:3])
            obl = [dict(id="V:%s" % name, harness=name, unit=name, engine="verus", strength="U", status="undecided", reason=r["reason"])]
        else:
            for fbe in fb:
                fn = fbe["function"].split("::", 1)[-1]
                if fn.startswith("canary_"):
                    continue
                ok = fbe.get("success", False)
                obl.append(dict(id="V:%s.%s (requires/ensures/invariants/no-panic of the extracted function)" % (name, fn), harness=name, unit=name,
                                engine="verus", strength="U", status="discharged" if ok else "failed",
                                reason=None if ok else "Verus reported an error in this function; see replay"))
            # vacuity canaries: proof fns named canary_* must FAIL
            can = [fbe for fbe in fb if fbe["function"].split("::")[-1].startswith("canary_")]
            bad = [c["function"] for c in can if c.get("success")]
            if bad:
                r["status"] = "undecided"
                r["reason"] = "vacuity: canary verified (contradictory precondition?): " + ", ".join(bad)
                for o in obl:
                    o["status"] = "undecided"
                    o["reason"] = r["reason"]
            elif any(o["status"] == "failed" for o in obl):
                r["status"] = "failed"
            elif not obl:
                r["status"], r["reason"] = "undecided", "vacuity: zero functions verified"
            else:
                r["status"] = "discharged"
            r["canaries_failed_as_expected"] = len(can) - len(bad)
        r["obligations"] = obl
        if r["status"] in ("discharged", "failed"):
            cache_put(key, r)
        results[name] = r
        log("  [verus] %-40s %6.1fs %s verified=%s errors=%s smt=%sms %s" % (name, r["wall_s"], r["status"].upper(), r.get("verified"), r.get("errors"), r.get("smt_ms"), r.get("reason") or ""))
    return results
