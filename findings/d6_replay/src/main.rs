// Replay of finding D6 (C10): strategy Fixed ("only static blocks") combined with window_bits < 12 is silently replaced
// by RLE in limit_level_by_window_bits, so dynamic-Huffman blocks are emitted although Fixed was requested.
use miniz_oxide::deflate::core::{compress, CompressorOxide, CompressionStrategy, TDEFLFlush, TDEFLStatus};
use miniz_oxide::DataFormat;
fn main() {
    // skewed literal distribution, no runs: a dynamic block is much smaller than the fixed one
    let mut data = Vec::new();
    let mut s = 1u32;
    for _ in 0..4000 { s = s.wrapping_mul(1103515245).wrapping_add(12345); data.push(b"aaaaaaaabbbbccd\xF0"[(s >> 16) as usize % 16]); }
    let mut bad = 0;
    for wb in [8u8, 9, 10, 11, 12, 15] {
        let mut c = CompressorOxide::with_params(DataFormat::Raw, 6, CompressionStrategy::Fixed, wb);
        let mut out = vec![0u8; 10000];
        let (st, _, n) = compress(&mut c, &data, &mut out, TDEFLFlush::Finish);
        assert_eq!(st, TDEFLStatus::Done);
        let btype = (out[0] >> 1) & 3; // first block header: BFINAL, BTYPE (LSB first)
        println!("window_bits {:2}: {} bytes, first block BTYPE = {} ({})", wb, n, btype, ["stored", "fixed", "dynamic", "reserved"][btype as usize]);
        if btype == 2 { bad += 1; }
        let back = miniz_oxide::inflate::decompress_to_vec(&out[..n]).expect("decodes");
        assert_eq!(back, data, "round trip");
        for strat in [CompressionStrategy::Filtered, CompressionStrategy::Fixed] {
            let mut c = CompressorOxide::with_params(DataFormat::Zlib, 9, strat, wb);
            let mut o2 = vec![0u8; 10000];
            let (st, _, n2) = compress(&mut c, &data, &mut o2, TDEFLFlush::Finish);
            assert_eq!(st, TDEFLStatus::Done);
            assert_eq!(miniz_oxide::inflate::decompress_to_vec_zlib(&o2[..n2]).expect("decodes"), data);
        }
    }
    std::process::exit(if bad == 0 { 0 } else { 1 });
}
