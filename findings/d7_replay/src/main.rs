// Replay of finding D7 (C16 / C18): after mz_deflateReset the C stream's checksum field must read what a freshly
// initialised stream shows -- the Adler-32 of the (empty) input consumed so far, 1. The pinned tree left 0 there
// until the next mz_deflate call (mz_deflateInit2 sets 1; zlib's deflateReset sets adler32(0, NULL, 0) == 1).
use miniz_oxide_c_api::{mz_deflate, mz_deflateInit, mz_deflateReset, mz_stream};
fn main() {
    let mut s = mz_stream::default();
    assert_eq!(unsafe { mz_deflateInit(&mut s, 6) }, 0);
    let fresh = s.adler;
    let data = *b"some input so that the running checksum moves away from its initial value";
    let mut out = [0u8; 256];
    s.next_in = data.as_ptr();
    s.avail_in = data.len() as u32;
    s.next_out = out.as_mut_ptr();
    s.avail_out = out.len() as u32;
    let _ = unsafe { mz_deflate(&mut s, 2) };
    println!("after init: adler = {}, after one call: adler = {}", fresh, s.adler);
    assert_eq!(unsafe { mz_deflateReset(&mut s) }, 0);
    println!("after reset: adler = {} (a fresh stream shows {})", s.adler, fresh);
    std::process::exit(if s.adler == fresh && s.total_in == 0 && s.total_out == 0 { 0 } else { 1 });
}
