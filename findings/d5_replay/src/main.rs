// Replay of finding D5 (C17): an out-of-range window_bits value expressible in C (INT_MIN) must yield an error
// code; in a debug build (overflow checks on) `-window_bits` overflowed and the call panicked.
use miniz_oxide_c_api::{mz_inflateInit2, mz_deflateInit2, mz_stream};
fn main() {
    let mut s = mz_stream::default();
    let rc = unsafe { mz_inflateInit2(&mut s, i32::MIN) };
    println!("mz_inflateInit2(INT_MIN) = {}", rc);
    let mut d = mz_stream::default();
    let rc2 = unsafe { mz_deflateInit2(&mut d, 6, 8, i32::MIN, 9, 0) };
    println!("mz_deflateInit2(window_bits = INT_MIN) = {}", rc2);
    std::process::exit(if rc == -10000 && rc2 == -10000 { 0 } else { 1 });
}
