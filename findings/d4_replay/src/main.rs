// Replay of finding D4 (C05): resuming a partially copied match (state WriteLenBytesToEnd) with a different
// flat output slice / start position panics inside transfer() instead of returning an error.
use miniz_oxide::inflate::core::{decompress, DecompressorOxide, inflate_flags::*};
use miniz_oxide::deflate::compress_to_vec;
fn main() {
    // 8 x 'a' then a long run: the compressor emits literals + a long match (distance 1..8)
    let mut data = vec![b'a'; 8]; data.extend(std::iter::repeat(b"abcdefgh".iter().cloned()).take(40).flatten());
    let z = compress_to_vec(&data, 6);
    let flags = TINFL_FLAG_USING_NON_WRAPPING_OUTPUT_BUF;
    let mut r = DecompressorOxide::new();
    let mut small = vec![0u8; 20];
    let (st, c, w) = decompress(&mut r, &z, &mut small, 0, flags);
    println!("call 1: {:?} consumed {} wrote {}", st, c, w);
    // second call: a fresh, larger slice, start position 0 (legal arguments: flat flag, out_pos <= len)
    let mut fresh = vec![0u8; 300];
    let res = std::panic::catch_unwind(move || { let mut r = r; decompress(&mut r, &z[c..], &mut fresh, 0, flags) });
    match res { Ok(t) => { println!("call 2 returned {:?}", t); std::process::exit(0) } Err(_) => { println!("call 2 PANICKED"); std::process::exit(1) } }
}
