use miniz_oxide::deflate::core::{compress, CompressorOxide, CompressionStrategy, TDEFLFlush, TDEFLStatus};
use miniz_oxide::inflate::core::{decompress, DecompressorOxide, inflate_flags::*};
use miniz_oxide::inflate::TINFLStatus;
use miniz_oxide::DataFormat;
fn data() -> Vec<u8> { let mut s = 12345u32; let mut v = Vec::new(); for _ in 0..3000 { s = s.wrapping_mul(1664525).wrapping_add(1013904223); v.push((s>>24) as u8);} let mut o=v.clone(); o.extend_from_slice(&v); o.extend_from_slice(&v); o }
fn comp(mut c: CompressorOxide, d:&[u8]) -> Vec<u8> { let mut out = vec![0u8; 40000]; let (st,i,o)=compress(&mut c,d,&mut out,TDEFLFlush::Finish); assert_eq!(st,TDEFLStatus::Done); assert_eq!(i,d.len()); out.truncate(o); out }
fn ring_decode(z:&[u8], ring: usize, flags:u32) -> (TINFLStatus, usize) {
    let mut r = DecompressorOxide::new(); let mut buf = vec![0u8; ring]; let (mut ip, mut op, mut total) = (0,0,0);
    loop { let (st, i, o) = decompress(&mut r, &z[ip..], &mut buf, op, flags); ip+=i; op=(op+o)&(ring-1); total+=o; if st != TINFLStatus::HasMoreOutput { return (st,total); } }
}
fn main() {
    let d = data();
    let a = comp(CompressorOxide::with_params(DataFormat::Raw, 1, CompressionStrategy::RLE, 15), &d);
    println!("RLE level1 raw: {} -> {} bytes (RLE-only output of random data must be >= input)", d.len(), a.len());
    let b = comp(CompressorOxide::with_params(DataFormat::Zlib, 6, CompressionStrategy::Default, 8), &d);
    println!("zlib wb=8 level 6: CMF={:#x} len {}", b[0], b.len());
    let win = 1usize << ((b[0]>>4)+8);
    let r = ring_decode(&b, win, TINFL_FLAG_PARSE_ZLIB_HEADER);
    println!("decode with declared window {} bytes ring: {:?}", win, r);
    let c = comp(CompressorOxide::with_params(DataFormat::Zlib, 1, CompressionStrategy::Default, 12), &d);
    let win = 1usize << ((c[0]>>4)+8);
    println!("zlib wb=12 level 1: CMF={:#x} len {} ; decode with declared window {}: {:?}", c[0], c.len(), win, ring_decode(&c, win, TINFL_FLAG_PARSE_ZLIB_HEADER));
    let ok = a.len() >= d.len() && r.0 == TINFLStatus::Done;
    std::process::exit(if ok {0} else {1});
}
