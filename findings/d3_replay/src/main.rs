// Replay of finding D3 (C18): InflateState::reset_as(MinReset) keeps the 32 KiB window, so a stream whose first
// match reaches before its own start decodes differently after a MinReset than on a fresh object.
use miniz_oxide::inflate::stream::{inflate, InflateState, MinReset, ZeroReset};
use miniz_oxide::{DataFormat, MZFlush};
fn run(st: &mut InflateState, z: &[u8]) -> (Vec<u8>, String) {
    let mut out = vec![0u8; 64];
    let r = inflate(st, z, &mut out, MZFlush::None);
    out.truncate(r.bytes_written);
    (out, format!("{:?}", r.status))
}
fn main() {
    // fixed-Huffman block: match length 3, distance 1 as the very first token, then end of block
    // bits: BFINAL=1, BTYPE=01, len code 257 (0000001), dist code 0 (00000), EOB (0000000)
    let mut bits: Vec<u8> = vec![1, 1, 0]; // bfinal, btype=01 (LSB first: 1,0)
    bits.extend([0,0,0,0,0,0,1]); bits.extend([0,0,0,0,0]); bits.extend([0,0,0,0,0,0,0]);
    let mut z = vec![0u8; (bits.len() + 7) / 8];
    for (i, b) in bits.iter().enumerate() { z[i / 8] |= b << (i % 8); }
    let prev = miniz_oxide::deflate::compress_to_vec(&[0xABu8; 40000], 6);
    let mut fresh = InflateState::new_boxed(DataFormat::Raw);
    let a = run(&mut fresh, &z);
    let mut used = InflateState::new_boxed(DataFormat::Raw);
    let mut sink = vec![0u8; 50000];
    let _ = inflate(&mut used, &prev, &mut sink, MZFlush::None);
    used.reset_as(MinReset);
    let b = run(&mut used, &z);
    let mut used2 = InflateState::new_boxed(DataFormat::Raw);
    let _ = inflate(&mut used2, &prev, &mut sink, MZFlush::None);
    used2.reset_as(ZeroReset);
    let c = run(&mut used2, &z);
    println!("fresh: {:?}\nafter MinReset: {:?}\nafter ZeroReset: {:?}", a, b, c);
    std::process::exit(if a == b && a == c { 0 } else { 1 });
}
