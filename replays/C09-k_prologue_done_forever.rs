// REPLAY for property C09, harness k_prologue_done_forever (unit K-prologue, engine kani)
// Failed obligations:
//   OBL:prologue.wrong_trailer_is_adler32_mismatch [C09]  at miniz_oxide/src/inflate/core.rs:3354:13 in function inflate::core::verif_inflate_core::k_prologue_done_forever
// no-failing-input-found: the verifier reported the failed obligation without a concrete model.
// Verifier output (tail):
//   Check 3519: memcmp.pointer_dereference.4
//   	 - Status: SUCCESS
//   	 - Description: "dereference failure: dead object"
//   	 - Location: <builtin-library-memcmp>:27 in function memcmp
//   
//   Check 3520: memcmp.pointer_dereference.5
//   	 - Status: SUCCESS
//   	 - Description: "dereference failure: pointer outside object bounds"
//   	 - Location: <builtin-library-memcmp>:27 in function memcmp
//   
//   Check 3521: memcmp.pointer_dereference.6
//   	 - Status: SUCCESS
//   	 - Description: "dereference failure: invalid integer address"
//   	 - Location: <builtin-library-memcmp>:27 in function memcmp
//   
//   Check 3522: memcmp.pointer_dereference.7
//   	 - Status: SUCCESS
//   	 - Description: "dereference failure: pointer NULL"
//   	 - Location: <builtin-library-memcmp>:27 in function memcmp
//   
//   Check 3523: memcmp.pointer_dereference.8
//   	 - Status: SUCCESS
//   	 - Description: "dereference failure: pointer invalid"
//   	 - Location: <builtin-library-memcmp>:27 in function memcmp
//   
//   Check 3524: memcmp.pointer_dereference.9
//   	 - Status: SUCCESS
//   	 - Description: "dereference failure: deallocated dynamic object"
//   	 - Location: <builtin-library-memcmp>:27 in function memcmp
//   
//   Check 3525: memcmp.pointer_dereference.10
//   	 - Status: SUCCESS
//   	 - Description: "dereference failure: dead object"
//   	 - Location: <builtin-library-memcmp>:27 in function memcmp
//   
//   Check 3526: memcmp.pointer_dereference.11
//   	 - Status: SUCCESS
//   	 - Description: "dereference failure: pointer outside object bounds"
//   	 - Location: <builtin-library-memcmp>:27 in function memcmp
//   
//   Check 3527: memcmp.pointer_dereference.12
//   	 - Status: SUCCESS
//   	 - Description: "dereference failure: invalid integer address"
//   	 - Location: <builtin-library-memcmp>:27 in function memcmp
//   
//   
//   SUMMARY:
//    ** 1 of 3525 failed (403 unreachable)
//   
//    ** 1 of 2 cover properties satisfied
//   
//   Failed Checks: "OBL:prologue.wrong_trailer_is_adler32_mismatch [C09]"
//    File: "miniz_oxide/src/inflate/core.rs", line 3354, in inflate::core::verif_inflate_core::k_prologue_done_forever
//   
//   VERIFICATION:- FAILED
//   Verification Time: 12.574359s
//   
//   Manual Harness Summary:
//   Verification failed for - inflate::core::verif_inflate_core::k_prologue_done_forever
//   Complete - 0 successfully verified harnesses, 1 failures, 1 total.
