// REPLAY for property DEV, harness k_arm_write_len_bytes_to_end (unit K-arms, engine kani)
// Failed obligations:
//   OBL:arms.transfer_pre_flat_source_before_destination [C05 C04]  at miniz_oxide/src/inflate/core.rs:3385:13 in function inflate::core::transfer
// no-failing-input-found: the verifier reported the failed obligation without a concrete model.
// Verifier output (tail):
//   	 - Description: "dereference failure: deallocated dynamic object"
//   	 - Location: ../../../../../home/runner/.rustup/toolchains/nightly-2026-08-21-x86_64-unknown-linux-gnu/lib/rustlib/src/rust/library/core/src/cmp.rs:2192:50 in function core::cmp::impls::<impl core::cmp::PartialOrd for usize>::lt
//   
//   Check 215: core::cmp::impls::<impl core::cmp::PartialOrd for usize>::lt.pointer_dereference.4
//   	 - Status: SUCCESS
//   	 - Description: "dereference failure: dead object"
//   	 - Location: ../../../../../home/runner/.rustup/toolchains/nightly-2026-08-21-x86_64-unknown-linux-gnu/lib/rustlib/src/rust/library/core/src/cmp.rs:2192:50 in function core::cmp::impls::<impl core::cmp::PartialOrd for usize>::lt
//   
//   Check 216: core::cmp::impls::<impl core::cmp::PartialOrd for usize>::lt.pointer_dereference.5
//   	 - Status: SUCCESS
//   	 - Description: "dereference failure: pointer outside object bounds"
//   	 - Location: ../../../../../home/runner/.rustup/toolchains/nightly-2026-08-21-x86_64-unknown-linux-gnu/lib/rustlib/src/rust/library/core/src/cmp.rs:2192:50 in function core::cmp::impls::<impl core::cmp::PartialOrd for usize>::lt
//   
//   Check 217: core::cmp::impls::<impl core::cmp::PartialOrd for usize>::lt.pointer_dereference.6
//   	 - Status: SUCCESS
//   	 - Description: "dereference failure: invalid integer address"
//   	 - Location: ../../../../../home/runner/.rustup/toolchains/nightly-2026-08-21-x86_64-unknown-linux-gnu/lib/rustlib/src/rust/library/core/src/cmp.rs:2192:50 in function core::cmp::impls::<impl core::cmp::PartialOrd for usize>::lt
//   
//   Check 218: core::cmp::impls::<impl core::cmp::PartialOrd for usize>::lt.pointer_dereference.7
//   	 - Status: SUCCESS
//   	 - Description: "dereference failure: pointer NULL"
//   	 - Location: ../../../../../home/runner/.rustup/toolchains/nightly-2026-08-21-x86_64-unknown-linux-gnu/lib/rustlib/src/rust/library/core/src/cmp.rs:2192:59 in function core::cmp::impls::<impl core::cmp::PartialOrd for usize>::lt
//   
//   Check 219: core::cmp::impls::<impl core::cmp::PartialOrd for usize>::lt.pointer_dereference.8
//   	 - Status: SUCCESS
//   	 - Description: "dereference failure: pointer invalid"
//   	 - Location: ../../../../../home/runner/.rustup/toolchains/nightly-2026-08-21-x86_64-unknown-linux-gnu/lib/rustlib/src/rust/library/core/src/cmp.rs:2192:59 in function core::cmp::impls::<impl core::cmp::PartialOrd for usize>::lt
//   
//   Check 220: core::cmp::impls::<impl core::cmp::PartialOrd for usize>::lt.pointer_dereference.9
//   	 - Status: SUCCESS
//   	 - Description: "dereference failure: deallocated dynamic object"
//   	 - Location: ../../../../../home/runner/.rustup/toolchains/nightly-2026-08-21-x86_64-unknown-linux-gnu/lib/rustlib/src/rust/library/core/src/cmp.rs:2192:59 in function core::cmp::impls::<impl core::cmp::PartialOrd for usize>::lt
//   
//   Check 221: core::cmp::impls::<impl core::cmp::PartialOrd for usize>::lt.pointer_dereference.10
//   	 - Status: SUCCESS
//   	 - Description: "dereference failure: dead object"
//   	 - Location: ../../../../../home/runner/.rustup/toolchains/nightly-2026-08-21-x86_64-unknown-linux-gnu/lib/rustlib/src/rust/library/core/src/cmp.rs:2192:59 in function core::cmp::impls::<impl core::cmp::PartialOrd for usize>::lt
//   
//   Check 222: core::cmp::impls::<impl core::cmp::PartialOrd for usize>::lt.pointer_dereference.11
//   	 - Status: SUCCESS
//   	 - Description: "dereference failure: pointer outside object bounds"
//   	 - Location: ../../../../../home/runner/.rustup/toolchains/nightly-2026-08-21-x86_64-unknown-linux-gnu/lib/rustlib/src/rust/library/core/src/cmp.rs:2192:59 in function core::cmp::impls::<impl core::cmp::PartialOrd for usize>::lt
//   
//   Check 223: core::cmp::impls::<impl core::cmp::PartialOrd for usize>::lt.pointer_dereference.12
//   	 - Status: SUCCESS
//   	 - Description: "dereference failure: invalid integer address"
//   	 - Location: ../../../../../home/runner/.rustup/toolchains/nightly-2026-08-21-x86_64-unknown-linux-gnu/lib/rustlib/src/rust/library/core/src/cmp.rs:2192:59 in function core::cmp::impls::<impl core::cmp::PartialOrd for usize>::lt
//   
//   
//   SUMMARY:
//    ** 1 of 223 failed (3 unreachable)
//   Failed Checks: "OBL:arms.transfer_pre_flat_source_before_destination [C05 C04]"
//    File: "miniz_oxide/src/inflate/core.rs", line 3385, in inflate::core::transfer
//   
//   VERIFICATION:- FAILED
//   Verification Time: 4.7808714s
//   
//   Manual Harness Summary:
//   Verification failed for - inflate::core::verif_inflate_core::k_arm_write_len_bytes_to_end
//   Complete - 0 successfully verified harnesses, 1 failures, 1 total.
