// REPLAY for property C08, harness k_decompress_fast_bounded (unit K-arms, engine kani)
// Failed obligations:
//   OBL:arms.transfer_pre_destination_in_bounds [C05 C08]  at miniz_oxide/src/inflate/core.rs:3398:9 in function inflate::core::verif_inflate_core::model_transfer
//   attempt to subtract with overflow  at miniz_oxide/src/inflate/output_buffer.rs:61:9 in function inflate::output_buffer::OutputBuffer::<'_>::bytes_left
// no-failing-input-found: the verifier reported the failed obligation without a concrete model.
// Verifier output (tail):
//   	 - Description: "dereference failure: pointer outside object bounds"
//   	 - Location: miniz_oxide/src/inflate/core.rs:433:23 in function <inflate::core::State as core::cmp::PartialEq>::eq
//   
//   Check 350: <inflate::core::State as core::cmp::PartialEq>::eq.pointer_dereference.6
//   	 - Status: SUCCESS
//   	 - Description: "dereference failure: invalid integer address"
//   	 - Location: miniz_oxide/src/inflate/core.rs:433:23 in function <inflate::core::State as core::cmp::PartialEq>::eq
//   
//   Check 351: <inflate::core::State as core::cmp::PartialEq>::eq.pointer_dereference.7
//   	 - Status: SUCCESS
//   	 - Description: "dereference failure: pointer NULL"
//   	 - Location: miniz_oxide/src/inflate/core.rs:433:23 in function <inflate::core::State as core::cmp::PartialEq>::eq
//   
//   Check 352: <inflate::core::State as core::cmp::PartialEq>::eq.pointer_dereference.8
//   	 - Status: SUCCESS
//   	 - Description: "dereference failure: pointer invalid"
//   	 - Location: miniz_oxide/src/inflate/core.rs:433:23 in function <inflate::core::State as core::cmp::PartialEq>::eq
//   
//   Check 353: <inflate::core::State as core::cmp::PartialEq>::eq.pointer_dereference.9
//   	 - Status: SUCCESS
//   	 - Description: "dereference failure: deallocated dynamic object"
//   	 - Location: miniz_oxide/src/inflate/core.rs:433:23 in function <inflate::core::State as core::cmp::PartialEq>::eq
//   
//   Check 354: <inflate::core::State as core::cmp::PartialEq>::eq.pointer_dereference.10
//   	 - Status: SUCCESS
//   	 - Description: "dereference failure: dead object"
//   	 - Location: miniz_oxide/src/inflate/core.rs:433:23 in function <inflate::core::State as core::cmp::PartialEq>::eq
//   
//   Check 355: <inflate::core::State as core::cmp::PartialEq>::eq.pointer_dereference.11
//   	 - Status: SUCCESS
//   	 - Description: "dereference failure: pointer outside object bounds"
//   	 - Location: miniz_oxide/src/inflate/core.rs:433:23 in function <inflate::core::State as core::cmp::PartialEq>::eq
//   
//   Check 356: <inflate::core::State as core::cmp::PartialEq>::eq.pointer_dereference.12
//   	 - Status: SUCCESS
//   	 - Description: "dereference failure: invalid integer address"
//   	 - Location: miniz_oxide/src/inflate/core.rs:433:23 in function <inflate::core::State as core::cmp::PartialEq>::eq
//   
//   Check 357: inflate::core::decompress_fast.unwind.0
//   	 - Status: SUCCESS
//   	 - Description: "unwinding assertion loop 0"
//   	 - Location: miniz_oxide/src/inflate/core.rs:1236:9 in function inflate::core::decompress_fast
//   
//   Check 358: inflate::core::decompress_fast.unwind.1
//   	 - Status: SUCCESS
//   	 - Description: "unwinding assertion loop 1"
//   	 - Location: miniz_oxide/src/inflate/core.rs:1236:9 in function inflate::core::decompress_fast
//   
//   
//   SUMMARY:
//    ** 0 of 355 failed (3 unreachable)
//   
//    ** 2 of 3 cover properties satisfied (1 unreachable)
//   
//   
//   VERIFICATION:- SUCCESSFUL
//   Verification Time: 154.78445s
//   
//   Manual Harness Summary:
//   Complete - 1 successfully verified harnesses, 0 failures, 1 total.
