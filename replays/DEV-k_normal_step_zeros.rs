// REPLAY for property DEV, harness k_normal_step_zeros (unit K-normalstep, engine kani)
// Failed obligations:
//   OBL:normal.huffman_only_emits_no_matches [C10]  at miniz_oxide/src/deflate/core.rs:3611:77 in function deflate::core::record_match
//   OBL:normal.match_never_reaches_before_start_of_data [C10 C01 C12]  at miniz_oxide/src/deflate/core.rs:3615:9 in function deflate::core::record_match
// no-failing-input-found: the verifier reported the failed obligation without a concrete model.
// Verifier output (tail):
//   	 - Description: "free argument must be NULL or valid pointer"
//   	 - Location: ../../../../../root/.kani/kani-0.68.0/library/kani/kani_lib.c:115 in function __rust_realloc
//   
//   Check 1564: __rust_realloc.precondition_instance.5
//   	 - Status: SUCCESS
//   	 - Description: "free argument must be dynamic object"
//   	 - Location: ../../../../../root/.kani/kani-0.68.0/library/kani/kani_lib.c:115 in function __rust_realloc
//   
//   Check 1565: __rust_realloc.precondition_instance.6
//   	 - Status: SUCCESS
//   	 - Description: "free argument has offset zero"
//   	 - Location: ../../../../../root/.kani/kani-0.68.0/library/kani/kani_lib.c:115 in function __rust_realloc
//   
//   Check 1566: __rust_realloc.precondition_instance.7
//   	 - Status: SUCCESS
//   	 - Description: "double free"
//   	 - Location: ../../../../../root/.kani/kani-0.68.0/library/kani/kani_lib.c:115 in function __rust_realloc
//   
//   Check 1567: __rust_realloc.precondition_instance.8
//   	 - Status: SUCCESS
//   	 - Description: "free called for new[] object"
//   	 - Location: ../../../../../root/.kani/kani-0.68.0/library/kani/kani_lib.c:115 in function __rust_realloc
//   
//   Check 1568: __rust_realloc.precondition_instance.9
//   	 - Status: SUCCESS
//   	 - Description: "free called for stack-allocated object"
//   	 - Location: ../../../../../root/.kani/kani-0.68.0/library/kani/kani_lib.c:115 in function __rust_realloc
//   
//   Check 1569: calloc.pointer_dereference.1
//   	 - Status: SUCCESS
//   	 - Description: "dereference failure: dead object"
//   	 - Location: <builtin-library-calloc>:14 in function calloc
//   
//   Check 1570: <core::slice::Iter<'_, u8> as core::iter::Iterator>::try_fold::<usize, {closure@<core::iter::TakeWhile<I, P> as core::iter::Iterator>::try_fold::check<'_, &u8, usize, core::ops::try_trait::NeverShortCircuit<usize>, {closure@miniz_oxide/src/deflate/core.rs:2073:33: 2073:37}, {closure@core::ops::try_trait::NeverShortCircuit<usize>::wrap_mut_2<usize, &u8, {closure@<core::iter::TakeWhile<core::slice::Iter<'_, u8>, {closure@miniz_oxide/src/deflate/core.rs:2073:33: 2073:37}> as core::iter::Iterator>::count::{closure#0}}>::{closure#0}}>::{closure#0}}, core::ops::ControlFlow<core::ops::try_trait::NeverShortCircuit<usize>, usize>>.unwind.0
//   	 - Status: SUCCESS
//   	 - Description: "unwinding assertion loop 0"
//   	 - Location: ../../../../../home/runner/.rustup/toolchains/nightly-2026-08-21-x86_64-unknown-linux-gnu/lib/rustlib/src/rust/library/core/src/iter/traits/iterator.rs:2489:9 in function <core::slice::Iter<'_, u8> as core::iter::Iterator>::try_fold::<usize, {closure@<core::iter::TakeWhile<I, P> as core::iter::Iterator>::try_fold::check<'_, &u8, usize, core::ops::try_trait::NeverShortCircuit<usize>, {closure@miniz_oxide/src/deflate/core.rs:2073:33: 2073:37}, {closure@core::ops::try_trait::NeverShortCircuit<usize>::wrap_mut_2<usize, &u8, {closure@<core::iter::TakeWhile<core::slice::Iter<'_, u8>, {closure@miniz_oxide/src/deflate/core.rs:2073:33: 2073:37}> as core::iter::Iterator>::count::{closure#0}}>::{closure#0}}>::{closure#0}}, core::ops::ControlFlow<core::ops::try_trait::NeverShortCircuit<usize>, usize>>
//   
//   Check 1571: deflate::core::compress_normal.unwind.2
//   	 - Status: SUCCESS
//   	 - Description: "unwinding assertion loop 2"
//   	 - Location: miniz_oxide/src/deflate/core.rs:1990:5 in function deflate::core::compress_normal
//   
//   
//   SUMMARY:
//    ** 2 of 1568 failed (19 unreachable)
//   
//    ** 3 of 3 cover properties satisfied
//   
//   Failed Checks: "OBL:normal.huffman_only_emits_no_matches [C10]"
//    File: "miniz_oxide/src/deflate/core.rs", line 3611, in deflate::core::record_match
//   Failed Checks: "OBL:normal.match_never_reaches_before_start_of_data [C10 C01 C12]"
//    File: "miniz_oxide/src/deflate/core.rs", line 3615, in deflate::core::record_match
//   
//   VERIFICATION:- FAILED
//   Verification Time: 586.43964s
//   
//   Manual Harness Summary:
//   Verification failed for - deflate::core::verif_deflate_core::k_normal_step_zeros
//   Complete - 0 successfully verified harnesses, 1 failures, 1 total.
