// REPLAY for property DEV, harness k_capi_mz_inflate (unit K-capi, engine kani)
// Failed obligations:
//   attempt to negate with overflow  at src/lib_oxide.rs:98:49 in function lib_oxide::invalid_window_bits
// no-failing-input-found: the verifier reported the failed obligation without a concrete model.
// Verifier output (tail):
//   Check 975: mz_inflateEnd.pointer_dereference.2
//   	 - Status: SUCCESS
//   	 - Description: "dereference failure: dead object"
//   	 - Location: src/lib.rs:105:27 in function mz_inflateEnd
//   
//   Check 976: mz_inflateInit2.pointer_dereference.1
//   	 - Status: SUCCESS
//   	 - Description: "dereference failure: dead object"
//   	 - Location: src/lib.rs:189:15 in function mz_inflateInit2
//   
//   Check 977: mz_inflateInit2.pointer_dereference.2
//   	 - Status: SUCCESS
//   	 - Description: "dereference failure: pointer NULL"
//   	 - Location: src/lib.rs:192:17 in function mz_inflateInit2
//   
//   Check 978: mz_inflateInit2.pointer_dereference.3
//   	 - Status: SUCCESS
//   	 - Description: "dereference failure: pointer invalid"
//   	 - Location: src/lib.rs:192:17 in function mz_inflateInit2
//   
//   Check 979: mz_inflateInit2.pointer_dereference.4
//   	 - Status: SUCCESS
//   	 - Description: "dereference failure: deallocated dynamic object"
//   	 - Location: src/lib.rs:192:17 in function mz_inflateInit2
//   
//   Check 980: mz_inflateInit2.pointer_dereference.5
//   	 - Status: SUCCESS
//   	 - Description: "dereference failure: dead object"
//   	 - Location: src/lib.rs:192:17 in function mz_inflateInit2
//   
//   Check 981: mz_inflateInit2.pointer_dereference.6
//   	 - Status: SUCCESS
//   	 - Description: "dereference failure: pointer outside object bounds"
//   	 - Location: src/lib.rs:192:17 in function mz_inflateInit2
//   
//   Check 982: mz_inflateInit2.pointer_dereference.7
//   	 - Status: SUCCESS
//   	 - Description: "dereference failure: invalid integer address"
//   	 - Location: src/lib.rs:192:17 in function mz_inflateInit2
//   
//   Check 983: mz_inflateInit2.pointer_dereference.8
//   	 - Status: SUCCESS
//   	 - Description: "dereference failure: dead object"
//   	 - Location: src/lib.rs:195:23 in function mz_inflateInit2
//   
//   
//   SUMMARY:
//    ** 1 of 981 failed (7 unreachable)
//   
//    ** 2 of 2 cover properties satisfied
//   
//   Failed Checks: attempt to negate with overflow
//    File: "src/lib_oxide.rs", line 98, in lib_oxide::invalid_window_bits
//   
//   VERIFICATION:- FAILED
//   Verification Time: 55.785503s
//   
//   Manual Harness Summary:
//   Verification failed for - lib_oxide::verif_capi_lib_oxide::k_capi_mz_inflate
//   Complete - 0 successfully verified harnesses, 1 failures, 1 total.
