// REPLAY for property C07, harness k_decode_huffman_code_overflow_tree (unit K-slowdecode, engine kani)
// Failed obligations:
//   attempt to subtract with overflow  at miniz_oxide/src/inflate/core.rs:732:5 in function inflate::core::decode_huffman_code::<{closure@miniz_oxide/src/inflate/core.rs:4353:90: 4353:103}>
// no-failing-input-found: the verifier reported the failed obligation without a concrete model.
// Verifier output (tail):
//   Check 334: inflate::core::verif_inflate_core::bits_view.pointer_dereference.14
//   	 - Status: SUCCESS
//   	 - Description: "dereference failure: pointer invalid"
//   	 - Location: miniz_oxide/src/inflate/core.rs:3386:63 in function inflate::core::verif_inflate_core::bits_view
//   
//   Check 335: inflate::core::verif_inflate_core::bits_view.pointer_dereference.15
//   	 - Status: SUCCESS
//   	 - Description: "dereference failure: deallocated dynamic object"
//   	 - Location: miniz_oxide/src/inflate/core.rs:3386:63 in function inflate::core::verif_inflate_core::bits_view
//   
//   Check 336: inflate::core::verif_inflate_core::bits_view.pointer_dereference.16
//   	 - Status: SUCCESS
//   	 - Description: "dereference failure: dead object"
//   	 - Location: miniz_oxide/src/inflate/core.rs:3386:63 in function inflate::core::verif_inflate_core::bits_view
//   
//   Check 337: inflate::core::verif_inflate_core::bits_view.pointer_dereference.17
//   	 - Status: SUCCESS
//   	 - Description: "dereference failure: pointer outside object bounds"
//   	 - Location: miniz_oxide/src/inflate/core.rs:3386:63 in function inflate::core::verif_inflate_core::bits_view
//   
//   Check 338: inflate::core::verif_inflate_core::bits_view.pointer_dereference.18
//   	 - Status: SUCCESS
//   	 - Description: "dereference failure: invalid integer address"
//   	 - Location: miniz_oxide/src/inflate/core.rs:3386:63 in function inflate::core::verif_inflate_core::bits_view
//   
//   Check 339: <usize as core::slice::SliceIndex<[i16]>>::get.pointer_dereference.1
//   	 - Status: SUCCESS
//   	 - Description: "dereference failure: dead object"
//   	 - Location: ../../../../../home/runner/.rustup/toolchains/nightly-2026-08-21-x86_64-unknown-linux-gnu/lib/rustlib/src/rust/library/core/src/slice/index.rs:188:13 in function <usize as core::slice::SliceIndex<[i16]>>::get
//   
//   Check 340: inflate::core::decode_huffman_code::<{closure@miniz_oxide/src/inflate/core.rs:4353:90: 4353:103}>.unwind.0
//   	 - Status: SUCCESS
//   	 - Description: "unwinding assertion loop 0"
//   	 - Location: miniz_oxide/src/inflate/core.rs:669:21 in function inflate::core::decode_huffman_code::<{closure@miniz_oxide/src/inflate/core.rs:4353:90: 4353:103}>
//   
//   Check 341: inflate::core::decode_huffman_code::<{closure@miniz_oxide/src/inflate/core.rs:4353:90: 4353:103}>.unwind.1
//   	 - Status: SUCCESS
//   	 - Description: "unwinding assertion loop 1"
//   	 - Location: miniz_oxide/src/inflate/core.rs:659:13 in function inflate::core::decode_huffman_code::<{closure@miniz_oxide/src/inflate/core.rs:4353:90: 4353:103}>
//   
//   Check 342: inflate::core::HuffmanTable::tree_lookup.unwind.0
//   	 - Status: SUCCESS
//   	 - Description: "unwinding assertion loop 0"
//   	 - Location: miniz_oxide/src/inflate/core.rs:84:9 in function inflate::core::HuffmanTable::tree_lookup
//   
//   
//   SUMMARY:
//    ** 1 of 339 failed
//   
//    ** 2 of 3 cover properties satisfied
//   
//   Failed Checks: attempt to subtract with overflow
//    File: "miniz_oxide/src/inflate/core.rs", line 732, in inflate::core::decode_huffman_code::<{closure@miniz_oxide/src/inflate/core.rs:4353:90: 4353:103}>
//   
//   VERIFICATION:- FAILED
//   Verification Time: 77.92045s
//   
//   Manual Harness Summary:
//   Verification failed for - inflate::core::verif_inflate_core::k_decode_huffman_code_overflow_tree
//   Complete - 0 successfully verified harnesses, 1 failures, 1 total.
