// REPLAY for property C07, harness k_arm_raw_first_byte (unit K-arms, engine kani)
// Failed obligations:
//   OBL:arms.raw_store_next_state [C03]  at miniz_oxide/src/inflate/core.rs:3577:17 in function inflate::core::verif_inflate_core::k_arm_raw_first_byte
// no-failing-input-found: the verifier reported the failed obligation without a concrete model.
// Verifier output (tail):
//   	 - Description: "dereference failure: dead object"
//   	 - Location: ../../../../../home/runner/.rustup/toolchains/nightly-2026-08-21-x86_64-unknown-linux-gnu/lib/rustlib/src/rust/library/core/src/cmp.rs:2192:50 in function core::cmp::impls::<impl core::cmp::PartialOrd for usize>::lt
//   
//   Check 297: core::cmp::impls::<impl core::cmp::PartialOrd for usize>::lt.pointer_dereference.5
//   	 - Status: SUCCESS
//   	 - Description: "dereference failure: pointer outside object bounds"
//   	 - Location: ../../../../../home/runner/.rustup/toolchains/nightly-2026-08-21-x86_64-unknown-linux-gnu/lib/rustlib/src/rust/library/core/src/cmp.rs:2192:50 in function core::cmp::impls::<impl core::cmp::PartialOrd for usize>::lt
//   
//   Check 298: core::cmp::impls::<impl core::cmp::PartialOrd for usize>::lt.pointer_dereference.6
//   	 - Status: SUCCESS
//   	 - Description: "dereference failure: invalid integer address"
//   	 - Location: ../../../../../home/runner/.rustup/toolchains/nightly-2026-08-21-x86_64-unknown-linux-gnu/lib/rustlib/src/rust/library/core/src/cmp.rs:2192:50 in function core::cmp::impls::<impl core::cmp::PartialOrd for usize>::lt
//   
//   Check 299: core::cmp::impls::<impl core::cmp::PartialOrd for usize>::lt.pointer_dereference.7
//   	 - Status: SUCCESS
//   	 - Description: "dereference failure: pointer NULL"
//   	 - Location: ../../../../../home/runner/.rustup/toolchains/nightly-2026-08-21-x86_64-unknown-linux-gnu/lib/rustlib/src/rust/library/core/src/cmp.rs:2192:59 in function core::cmp::impls::<impl core::cmp::PartialOrd for usize>::lt
//   
//   Check 300: core::cmp::impls::<impl core::cmp::PartialOrd for usize>::lt.pointer_dereference.8
//   	 - Status: SUCCESS
//   	 - Description: "dereference failure: pointer invalid"
//   	 - Location: ../../../../../home/runner/.rustup/toolchains/nightly-2026-08-21-x86_64-unknown-linux-gnu/lib/rustlib/src/rust/library/core/src/cmp.rs:2192:59 in function core::cmp::impls::<impl core::cmp::PartialOrd for usize>::lt
//   
//   Check 301: core::cmp::impls::<impl core::cmp::PartialOrd for usize>::lt.pointer_dereference.9
//   	 - Status: SUCCESS
//   	 - Description: "dereference failure: deallocated dynamic object"
//   	 - Location: ../../../../../home/runner/.rustup/toolchains/nightly-2026-08-21-x86_64-unknown-linux-gnu/lib/rustlib/src/rust/library/core/src/cmp.rs:2192:59 in function core::cmp::impls::<impl core::cmp::PartialOrd for usize>::lt
//   
//   Check 302: core::cmp::impls::<impl core::cmp::PartialOrd for usize>::lt.pointer_dereference.10
//   	 - Status: SUCCESS
//   	 - Description: "dereference failure: dead object"
//   	 - Location: ../../../../../home/runner/.rustup/toolchains/nightly-2026-08-21-x86_64-unknown-linux-gnu/lib/rustlib/src/rust/library/core/src/cmp.rs:2192:59 in function core::cmp::impls::<impl core::cmp::PartialOrd for usize>::lt
//   
//   Check 303: core::cmp::impls::<impl core::cmp::PartialOrd for usize>::lt.pointer_dereference.11
//   	 - Status: SUCCESS
//   	 - Description: "dereference failure: pointer outside object bounds"
//   	 - Location: ../../../../../home/runner/.rustup/toolchains/nightly-2026-08-21-x86_64-unknown-linux-gnu/lib/rustlib/src/rust/library/core/src/cmp.rs:2192:59 in function core::cmp::impls::<impl core::cmp::PartialOrd for usize>::lt
//   
//   Check 304: core::cmp::impls::<impl core::cmp::PartialOrd for usize>::lt.pointer_dereference.12
//   	 - Status: SUCCESS
//   	 - Description: "dereference failure: invalid integer address"
//   	 - Location: ../../../../../home/runner/.rustup/toolchains/nightly-2026-08-21-x86_64-unknown-linux-gnu/lib/rustlib/src/rust/library/core/src/cmp.rs:2192:59 in function core::cmp::impls::<impl core::cmp::PartialOrd for usize>::lt
//   
//   Check 305: inflate::core::read_bits::<{closure@miniz_oxide/src/inflate/core.rs:2515:59: 2515:68}>.unwind.0
//   	 - Status: SUCCESS
//   	 - Description: "unwinding assertion loop 0"
//   	 - Location: miniz_oxide/src/inflate/core.rs:768:5 in function inflate::core::read_bits::<{closure@miniz_oxide/src/inflate/core.rs:2515:59: 2515:68}>
//   
//   
//   SUMMARY:
//    ** 1 of 305 failed (1 unreachable)
//   Failed Checks: "OBL:arms.raw_store_next_state [C03]"
//    File: "miniz_oxide/src/inflate/core.rs", line 3577, in inflate::core::verif_inflate_core::k_arm_raw_first_byte
//   
//   VERIFICATION:- FAILED
//   Verification Time: 29.917603s
//   
//   Manual Harness Summary:
//   Verification failed for - inflate::core::verif_inflate_core::k_arm_raw_first_byte
//   Complete - 0 successfully verified harnesses, 1 failures, 1 total.
