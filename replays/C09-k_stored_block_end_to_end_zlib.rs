// REPLAY for property C09, harness k_stored_block_end_to_end_zlib (unit K-stored-e2e, engine kani)
// Failed obligations:
//   OBL:e2e.completion_only_if_trailer_equals_checksum_of_output [C09 C04]  at miniz_oxide/src/inflate/core.rs:4408:13 in function inflate::core::verif_inflate_core::stored_e2e_body
// no-failing-input-found: the verifier reported the failed obligation without a concrete model.
// Verifier output (tail):
//   	 - Description: "dereference failure: deallocated dynamic object"
//   	 - Location: ../../../../../home/runner/.rustup/toolchains/nightly-2026-08-21-x86_64-unknown-linux-gnu/lib/rustlib/src/rust/library/core/src/ptr/non_null.rs:1663:26 in function <core::ptr::NonNull<i16> as core::cmp::PartialEq>::eq
//   
//   Check 3425: <core::ptr::NonNull<i16> as core::cmp::PartialEq>::eq.pointer_dereference.10
//   	 - Status: SUCCESS
//   	 - Description: "dereference failure: dead object"
//   	 - Location: ../../../../../home/runner/.rustup/toolchains/nightly-2026-08-21-x86_64-unknown-linux-gnu/lib/rustlib/src/rust/library/core/src/ptr/non_null.rs:1663:26 in function <core::ptr::NonNull<i16> as core::cmp::PartialEq>::eq
//   
//   Check 3426: <core::ptr::NonNull<i16> as core::cmp::PartialEq>::eq.pointer_dereference.11
//   	 - Status: SUCCESS
//   	 - Description: "dereference failure: pointer outside object bounds"
//   	 - Location: ../../../../../home/runner/.rustup/toolchains/nightly-2026-08-21-x86_64-unknown-linux-gnu/lib/rustlib/src/rust/library/core/src/ptr/non_null.rs:1663:26 in function <core::ptr::NonNull<i16> as core::cmp::PartialEq>::eq
//   
//   Check 3427: <core::ptr::NonNull<i16> as core::cmp::PartialEq>::eq.pointer_dereference.12
//   	 - Status: SUCCESS
//   	 - Description: "dereference failure: invalid integer address"
//   	 - Location: ../../../../../home/runner/.rustup/toolchains/nightly-2026-08-21-x86_64-unknown-linux-gnu/lib/rustlib/src/rust/library/core/src/ptr/non_null.rs:1663:26 in function <core::ptr::NonNull<i16> as core::cmp::PartialEq>::eq
//   
//   Check 3428: <core::ops::RangeInclusive<usize> as core::ops::RangeBounds<usize>>::end_bound.pointer_dereference.1
//   	 - Status: SUCCESS
//   	 - Description: "dereference failure: pointer NULL"
//   	 - Location: ../../../../../home/runner/.rustup/toolchains/nightly-2026-08-21-x86_64-unknown-linux-gnu/lib/rustlib/src/rust/library/core/src/ops/range.rs:1141:12 in function <core::ops::RangeInclusive<usize> as core::ops::RangeBounds<usize>>::end_bound
//   
//   Check 3429: <core::ops::RangeInclusive<usize> as core::ops::RangeBounds<usize>>::end_bound.pointer_dereference.2
//   	 - Status: SUCCESS
//   	 - Description: "dereference failure: pointer invalid"
//   	 - Location: ../../../../../home/runner/.rustup/toolchains/nightly-2026-08-21-x86_64-unknown-linux-gnu/lib/rustlib/src/rust/library/core/src/ops/range.rs:1141:12 in function <core::ops::RangeInclusive<usize> as core::ops::RangeBounds<usize>>::end_bound
//   
//   Check 3430: <core::ops::RangeInclusive<usize> as core::ops::RangeBounds<usize>>::end_bound.pointer_dereference.3
//   	 - Status: SUCCESS
//   	 - Description: "dereference failure: deallocated dynamic object"
//   	 - Location: ../../../../../home/runner/.rustup/toolchains/nightly-2026-08-21-x86_64-unknown-linux-gnu/lib/rustlib/src/rust/library/core/src/ops/range.rs:1141:12 in function <core::ops::RangeInclusive<usize> as core::ops::RangeBounds<usize>>::end_bound
//   
//   Check 3431: <core::ops::RangeInclusive<usize> as core::ops::RangeBounds<usize>>::end_bound.pointer_dereference.4
//   	 - Status: SUCCESS
//   	 - Description: "dereference failure: dead object"
//   	 - Location: ../../../../../home/runner/.rustup/toolchains/nightly-2026-08-21-x86_64-unknown-linux-gnu/lib/rustlib/src/rust/library/core/src/ops/range.rs:1141:12 in function <core::ops::RangeInclusive<usize> as core::ops::RangeBounds<usize>>::end_bound
//   
//   Check 3432: <core::ops::RangeInclusive<usize> as core::ops::RangeBounds<usize>>::end_bound.pointer_dereference.5
//   	 - Status: SUCCESS
//   	 - Description: "dereference failure: pointer outside object bounds"
//   	 - Location: ../../../../../home/runner/.rustup/toolchains/nightly-2026-08-21-x86_64-unknown-linux-gnu/lib/rustlib/src/rust/library/core/src/ops/range.rs:1141:12 in function <core::ops::RangeInclusive<usize> as core::ops::RangeBounds<usize>>::end_bound
//   
//   Check 3433: <core::ops::RangeInclusive<usize> as core::ops::RangeBounds<usize>>::end_bound.pointer_dereference.6
//   	 - Status: SUCCESS
//   	 - Description: "dereference failure: invalid integer address"
//   	 - Location: ../../../../../home/runner/.rustup/toolchains/nightly-2026-08-21-x86_64-unknown-linux-gnu/lib/rustlib/src/rust/library/core/src/ops/range.rs:1141:12 in function <core::ops::RangeInclusive<usize> as core::ops::RangeBounds<usize>>::end_bound
//   
//   
//   SUMMARY:
//    ** 1 of 3433 failed (357 unreachable)
//   Failed Checks: "OBL:e2e.completion_only_if_trailer_equals_checksum_of_output [C09 C04]"
//    File: "miniz_oxide/src/inflate/core.rs", line 4408, in inflate::core::verif_inflate_core::stored_e2e_body
//   
//   VERIFICATION:- FAILED
//   Verification Time: 32.78971s
//   
//   Manual Harness Summary:
//   Verification failed for - inflate::core::verif_inflate_core::k_stored_block_end_to_end_zlib
//   Complete - 0 successfully verified harnesses, 1 failures, 1 total.
