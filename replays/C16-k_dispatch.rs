// REPLAY for property C16, harness k_dispatch (unit K-dispatch, engine kani)
// Failed obligations:
//   OBL:dispatch.adler_over_consumed_prefix [C09 C16]  at miniz_oxide/src/deflate/core.rs:3192:13 in function deflate::core::verif_deflate_core::k_dispatch
// no-failing-input-found: the verifier reported the failed obligation without a concrete model.
// Verifier output (tail):
//   Check 1353: memcmp.pointer_dereference.4
//   	 - Status: SUCCESS
//   	 - Description: "dereference failure: dead object"
//   	 - Location: <builtin-library-memcmp>:27 in function memcmp
//   
//   Check 1354: memcmp.pointer_dereference.5
//   	 - Status: SUCCESS
//   	 - Description: "dereference failure: pointer outside object bounds"
//   	 - Location: <builtin-library-memcmp>:27 in function memcmp
//   
//   Check 1355: memcmp.pointer_dereference.6
//   	 - Status: SUCCESS
//   	 - Description: "dereference failure: invalid integer address"
//   	 - Location: <builtin-library-memcmp>:27 in function memcmp
//   
//   Check 1356: memcmp.pointer_dereference.7
//   	 - Status: SUCCESS
//   	 - Description: "dereference failure: pointer NULL"
//   	 - Location: <builtin-library-memcmp>:27 in function memcmp
//   
//   Check 1357: memcmp.pointer_dereference.8
//   	 - Status: SUCCESS
//   	 - Description: "dereference failure: pointer invalid"
//   	 - Location: <builtin-library-memcmp>:27 in function memcmp
//   
//   Check 1358: memcmp.pointer_dereference.9
//   	 - Status: SUCCESS
//   	 - Description: "dereference failure: deallocated dynamic object"
//   	 - Location: <builtin-library-memcmp>:27 in function memcmp
//   
//   Check 1359: memcmp.pointer_dereference.10
//   	 - Status: SUCCESS
//   	 - Description: "dereference failure: dead object"
//   	 - Location: <builtin-library-memcmp>:27 in function memcmp
//   
//   Check 1360: memcmp.pointer_dereference.11
//   	 - Status: SUCCESS
//   	 - Description: "dereference failure: pointer outside object bounds"
//   	 - Location: <builtin-library-memcmp>:27 in function memcmp
//   
//   Check 1361: memcmp.pointer_dereference.12
//   	 - Status: SUCCESS
//   	 - Description: "dereference failure: invalid integer address"
//   	 - Location: <builtin-library-memcmp>:27 in function memcmp
//   
//   
//   SUMMARY:
//    ** 1 of 1354 failed (8 unreachable)
//   
//    ** 7 of 7 cover properties satisfied
//   
//   Failed Checks: "OBL:dispatch.adler_over_consumed_prefix [C09 C16]"
//    File: "miniz_oxide/src/deflate/core.rs", line 3192, in deflate::core::verif_deflate_core::k_dispatch
//   
//   VERIFICATION:- FAILED
//   Verification Time: 74.44266s
//   
//   Manual Harness Summary:
//   Verification failed for - deflate::core::verif_deflate_core::k_dispatch
//   Complete - 0 successfully verified harnesses, 1 failures, 1 total.
