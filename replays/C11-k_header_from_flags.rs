// REPLAY for property C11, harness k_header_from_flags (unit K-zhdr, engine kani)
// Failed obligations:
//   OBL:zhdr.cinfo_is_max_wb_8_minus_8 [C09 C11]  at miniz_oxide/src/deflate/zlib.rs:191:9 in function deflate::zlib::verif_deflate_zlib::k_header_from_flags
// Counterexample from the verifier (Kani concrete playback). Replay against the real code with:
//   /verif/bin/vcheck --replay /verif/replays/C11-k_header_from_flags.rs
//@HARNESS core k_header_from_flags
/// Test generated for harness `deflate::zlib::verif_deflate_zlib::k_header_from_flags` 
///
/// Check for `assertion`: ""OBL:zhdr.cinfo_is_max_wb_8_minus_8 [C09 C11]""

#[test]
fn kani_concrete_playback_k_header_from_flags_1442333775044424786() {
    let concrete_vals: Vec<Vec<u8>> = vec![
        // 4294881281
        vec![1, 176, 254, 255],
        // 13
        vec![13],
    ];
    kani::concrete_playback_run(concrete_vals, k_header_from_flags);
}

/// Test generated for harness `deflate::zlib::verif_deflate_zlib::k_header_from_flags` 
///
/// Check for `cover`: "COV:zhdr.wb_below_8"

#[test]
fn kani_concrete_playback_k_header_from_flags_4825468880438809942() {
    let concrete_vals: Vec<Vec<u8>> = vec![
        // 2
        vec![2, 0, 0, 0],
        // 0
        vec![0],
    ];
    kani::concrete_playback_run(concrete_vals, k_header_from_flags);
}

/// Test generated for harness `deflate::zlib::verif_deflate_zlib::k_header_from_flags` 
///
/// Check for `cover`: "COV:zhdr.wb_15"

#[test]
fn kani_concrete_playback_k_header_from_flags_10856809032253891466() {
    let concrete_vals: Vec<Vec<u8>> = vec![
        // 4294963201
        vec![1, 240, 255, 255],
        // 15
        vec![15],
    ];
    kani::concrete_playback_run(concrete_vals, k_header_from_flags);
}

