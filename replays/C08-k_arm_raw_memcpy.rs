// REPLAY for property C08, harness k_arm_raw_memcpy (unit K-arms, engine kani)
// Failed obligations:
//   OBL:arms.stored_block_complete_is_done_even_when_window_full [C03 C08]  at miniz_oxide/src/inflate/core.rs:3515:17 in function inflate::core::verif_inflate_core::k_arm_raw_memcpy
// no-failing-input-found: the verifier reported the failed obligation without a concrete model.
// Verifier output (tail):
//   	 - Description: "dereference failure: deallocated dynamic object"
//   	 - Location: ../../../../../home/runner/.rustup/toolchains/nightly-2026-08-21-x86_64-unknown-linux-gnu/lib/rustlib/src/rust/library/core/src/cmp.rs:2192:50 in function core::cmp::impls::<impl core::cmp::PartialOrd for usize>::lt
//   
//   Check 204: core::cmp::impls::<impl core::cmp::PartialOrd for usize>::lt.pointer_dereference.4
//   	 - Status: SUCCESS
//   	 - Description: "dereference failure: dead object"
//   	 - Location: ../../../../../home/runner/.rustup/toolchains/nightly-2026-08-21-x86_64-unknown-linux-gnu/lib/rustlib/src/rust/library/core/src/cmp.rs:2192:50 in function core::cmp::impls::<impl core::cmp::PartialOrd for usize>::lt
//   
//   Check 205: core::cmp::impls::<impl core::cmp::PartialOrd for usize>::lt.pointer_dereference.5
//   	 - Status: SUCCESS
//   	 - Description: "dereference failure: pointer outside object bounds"
//   	 - Location: ../../../../../home/runner/.rustup/toolchains/nightly-2026-08-21-x86_64-unknown-linux-gnu/lib/rustlib/src/rust/library/core/src/cmp.rs:2192:50 in function core::cmp::impls::<impl core::cmp::PartialOrd for usize>::lt
//   
//   Check 206: core::cmp::impls::<impl core::cmp::PartialOrd for usize>::lt.pointer_dereference.6
//   	 - Status: SUCCESS
//   	 - Description: "dereference failure: invalid integer address"
//   	 - Location: ../../../../../home/runner/.rustup/toolchains/nightly-2026-08-21-x86_64-unknown-linux-gnu/lib/rustlib/src/rust/library/core/src/cmp.rs:2192:50 in function core::cmp::impls::<impl core::cmp::PartialOrd for usize>::lt
//   
//   Check 207: core::cmp::impls::<impl core::cmp::PartialOrd for usize>::lt.pointer_dereference.7
//   	 - Status: SUCCESS
//   	 - Description: "dereference failure: pointer NULL"
//   	 - Location: ../../../../../home/runner/.rustup/toolchains/nightly-2026-08-21-x86_64-unknown-linux-gnu/lib/rustlib/src/rust/library/core/src/cmp.rs:2192:59 in function core::cmp::impls::<impl core::cmp::PartialOrd for usize>::lt
//   
//   Check 208: core::cmp::impls::<impl core::cmp::PartialOrd for usize>::lt.pointer_dereference.8
//   	 - Status: SUCCESS
//   	 - Description: "dereference failure: pointer invalid"
//   	 - Location: ../../../../../home/runner/.rustup/toolchains/nightly-2026-08-21-x86_64-unknown-linux-gnu/lib/rustlib/src/rust/library/core/src/cmp.rs:2192:59 in function core::cmp::impls::<impl core::cmp::PartialOrd for usize>::lt
//   
//   Check 209: core::cmp::impls::<impl core::cmp::PartialOrd for usize>::lt.pointer_dereference.9
//   	 - Status: SUCCESS
//   	 - Description: "dereference failure: deallocated dynamic object"
//   	 - Location: ../../../../../home/runner/.rustup/toolchains/nightly-2026-08-21-x86_64-unknown-linux-gnu/lib/rustlib/src/rust/library/core/src/cmp.rs:2192:59 in function core::cmp::impls::<impl core::cmp::PartialOrd for usize>::lt
//   
//   Check 210: core::cmp::impls::<impl core::cmp::PartialOrd for usize>::lt.pointer_dereference.10
//   	 - Status: SUCCESS
//   	 - Description: "dereference failure: dead object"
//   	 - Location: ../../../../../home/runner/.rustup/toolchains/nightly-2026-08-21-x86_64-unknown-linux-gnu/lib/rustlib/src/rust/library/core/src/cmp.rs:2192:59 in function core::cmp::impls::<impl core::cmp::PartialOrd for usize>::lt
//   
//   Check 211: core::cmp::impls::<impl core::cmp::PartialOrd for usize>::lt.pointer_dereference.11
//   	 - Status: SUCCESS
//   	 - Description: "dereference failure: pointer outside object bounds"
//   	 - Location: ../../../../../home/runner/.rustup/toolchains/nightly-2026-08-21-x86_64-unknown-linux-gnu/lib/rustlib/src/rust/library/core/src/cmp.rs:2192:59 in function core::cmp::impls::<impl core::cmp::PartialOrd for usize>::lt
//   
//   Check 212: core::cmp::impls::<impl core::cmp::PartialOrd for usize>::lt.pointer_dereference.12
//   	 - Status: SUCCESS
//   	 - Description: "dereference failure: invalid integer address"
//   	 - Location: ../../../../../home/runner/.rustup/toolchains/nightly-2026-08-21-x86_64-unknown-linux-gnu/lib/rustlib/src/rust/library/core/src/cmp.rs:2192:59 in function core::cmp::impls::<impl core::cmp::PartialOrd for usize>::lt
//   
//   
//   SUMMARY:
//    ** 1 of 212 failed (4 unreachable)
//   Failed Checks: "OBL:arms.stored_block_complete_is_done_even_when_window_full [C03 C08]"
//    File: "miniz_oxide/src/inflate/core.rs", line 3515, in inflate::core::verif_inflate_core::k_arm_raw_memcpy
//   
//   VERIFICATION:- FAILED
//   Verification Time: 19.038467s
//   
//   Manual Harness Summary:
//   Verification failed for - inflate::core::verif_inflate_core::k_arm_raw_memcpy
//   Complete - 0 successfully verified harnesses, 1 failures, 1 total.
