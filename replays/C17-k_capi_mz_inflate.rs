// REPLAY for property C17, harness k_capi_mz_inflate (unit K-capi, engine kani)
// Failed obligations:
//   OBL:capi.input_pointer_advances_by_drop_in_avail_and_rise_in_total [C17 C06]  at src/lib_oxide.rs:439:13 in function lib_oxide::verif_capi_lib_oxide::k_capi_mz_inflate
//   OBL:capi.output_pointer_advances_by_drop_in_avail_and_rise_in_total [C17]  at src/lib_oxide.rs:441:13 in function lib_oxide::verif_capi_lib_oxide::k_capi_mz_inflate
// no-failing-input-found: the verifier reported the failed obligation without a concrete model.
// Verifier output (tail):
//   	 - Description: "dereference failure: dead object"
//   	 - Location: src/lib.rs:105:27 in function mz_inflateEnd
//   
//   Check 977: mz_inflateInit2.pointer_dereference.1
//   	 - Status: SUCCESS
//   	 - Description: "dereference failure: dead object"
//   	 - Location: src/lib.rs:189:15 in function mz_inflateInit2
//   
//   Check 978: mz_inflateInit2.pointer_dereference.2
//   	 - Status: SUCCESS
//   	 - Description: "dereference failure: pointer NULL"
//   	 - Location: src/lib.rs:192:17 in function mz_inflateInit2
//   
//   Check 979: mz_inflateInit2.pointer_dereference.3
//   	 - Status: SUCCESS
//   	 - Description: "dereference failure: pointer invalid"
//   	 - Location: src/lib.rs:192:17 in function mz_inflateInit2
//   
//   Check 980: mz_inflateInit2.pointer_dereference.4
//   	 - Status: SUCCESS
//   	 - Description: "dereference failure: deallocated dynamic object"
//   	 - Location: src/lib.rs:192:17 in function mz_inflateInit2
//   
//   Check 981: mz_inflateInit2.pointer_dereference.5
//   	 - Status: SUCCESS
//   	 - Description: "dereference failure: dead object"
//   	 - Location: src/lib.rs:192:17 in function mz_inflateInit2
//   
//   Check 982: mz_inflateInit2.pointer_dereference.6
//   	 - Status: SUCCESS
//   	 - Description: "dereference failure: pointer outside object bounds"
//   	 - Location: src/lib.rs:192:17 in function mz_inflateInit2
//   
//   Check 983: mz_inflateInit2.pointer_dereference.7
//   	 - Status: SUCCESS
//   	 - Description: "dereference failure: invalid integer address"
//   	 - Location: src/lib.rs:192:17 in function mz_inflateInit2
//   
//   Check 984: mz_inflateInit2.pointer_dereference.8
//   	 - Status: SUCCESS
//   	 - Description: "dereference failure: dead object"
//   	 - Location: src/lib.rs:195:23 in function mz_inflateInit2
//   
//   
//   SUMMARY:
//    ** 2 of 982 failed (7 unreachable)
//   
//    ** 1 of 2 cover properties satisfied
//   
//   Failed Checks: "OBL:capi.input_pointer_advances_by_drop_in_avail_and_rise_in_total [C17 C06]"
//    File: "src/lib_oxide.rs", line 439, in lib_oxide::verif_capi_lib_oxide::k_capi_mz_inflate
//   Failed Checks: "OBL:capi.output_pointer_advances_by_drop_in_avail_and_rise_in_total [C17]"
//    File: "src/lib_oxide.rs", line 441, in lib_oxide::verif_capi_lib_oxide::k_capi_mz_inflate
//   
//   VERIFICATION:- FAILED
//   Verification Time: 50.75841s
//   
//   Manual Harness Summary:
//   Verification failed for - lib_oxide::verif_capi_lib_oxide::k_capi_mz_inflate
//   Complete - 0 successfully verified harnesses, 1 failures, 1 total.
