// REPLAY for property C01, harness k_normal_early_return_keeps_lazy_state (unit K-normal-early, engine kani)
// Failed obligations:
//   OBL:normalearly.every_skipped_byte_is_a_token_or_the_pending_lazy_match [C01 C02]  at miniz_oxide/src/deflate/core.rs:4049:9 in function deflate::core::verif_deflate_core::k_normal_early_return_keeps_lazy_state
// no-failing-input-found: the verifier reported the failed obligation without a concrete model.
// Verifier output (tail):
//   Check 1528: __rust_realloc.precondition_instance.2
//   	 - Status: SUCCESS
//   	 - Description: "memcpy source region readable"
//   	 - Location: ../../../../../root/.kani/kani-0.68.0/library/kani/kani_lib.c:114 in function __rust_realloc
//   
//   Check 1529: __rust_realloc.precondition_instance.3
//   	 - Status: SUCCESS
//   	 - Description: "memcpy destination region writeable"
//   	 - Location: ../../../../../root/.kani/kani-0.68.0/library/kani/kani_lib.c:114 in function __rust_realloc
//   
//   Check 1530: __rust_realloc.precondition_instance.4
//   	 - Status: SUCCESS
//   	 - Description: "free argument must be NULL or valid pointer"
//   	 - Location: ../../../../../root/.kani/kani-0.68.0/library/kani/kani_lib.c:115 in function __rust_realloc
//   
//   Check 1531: __rust_realloc.precondition_instance.5
//   	 - Status: SUCCESS
//   	 - Description: "free argument must be dynamic object"
//   	 - Location: ../../../../../root/.kani/kani-0.68.0/library/kani/kani_lib.c:115 in function __rust_realloc
//   
//   Check 1532: __rust_realloc.precondition_instance.6
//   	 - Status: SUCCESS
//   	 - Description: "free argument has offset zero"
//   	 - Location: ../../../../../root/.kani/kani-0.68.0/library/kani/kani_lib.c:115 in function __rust_realloc
//   
//   Check 1533: __rust_realloc.precondition_instance.7
//   	 - Status: SUCCESS
//   	 - Description: "double free"
//   	 - Location: ../../../../../root/.kani/kani-0.68.0/library/kani/kani_lib.c:115 in function __rust_realloc
//   
//   Check 1534: __rust_realloc.precondition_instance.8
//   	 - Status: SUCCESS
//   	 - Description: "free called for new[] object"
//   	 - Location: ../../../../../root/.kani/kani-0.68.0/library/kani/kani_lib.c:115 in function __rust_realloc
//   
//   Check 1535: __rust_realloc.precondition_instance.9
//   	 - Status: SUCCESS
//   	 - Description: "free called for stack-allocated object"
//   	 - Location: ../../../../../root/.kani/kani-0.68.0/library/kani/kani_lib.c:115 in function __rust_realloc
//   
//   Check 1536: calloc.pointer_dereference.1
//   	 - Status: SUCCESS
//   	 - Description: "dereference failure: dead object"
//   	 - Location: <builtin-library-calloc>:14 in function calloc
//   
//   
//   SUMMARY:
//    ** 1 of 1534 failed (40 unreachable)
//   
//    ** 1 of 2 cover properties satisfied
//   
//   Failed Checks: "OBL:normalearly.every_skipped_byte_is_a_token_or_the_pending_lazy_match [C01 C02]"
//    File: "miniz_oxide/src/deflate/core.rs", line 4049, in deflate::core::verif_deflate_core::k_normal_early_return_keeps_lazy_state
//   
//   VERIFICATION:- FAILED
//   Verification Time: 112.8801s
//   
//   Manual Harness Summary:
//   Verification failed for - deflate::core::verif_deflate_core::k_normal_early_return_keeps_lazy_state
//   Complete - 0 successfully verified harnesses, 1 failures, 1 total.
