// REPLAY for property C17, harness k_capi_tinfl_mem_to_heap (unit K-capi, engine kani)
// Failed obligations:
//   dereference failure: pointer invalid  at ../../../../home/runner/.rustup/toolchains/nightly-2026-08-21-x86_64-unknown-linux-gnu/lib/rustlib/src/rust/library/core/src/slice/raw.rs:139:9 in function std::slice::from_raw_parts::<'_, u8>
//   OBL:tinfl.input_slice_is_exactly_the_unconsumed_rest_of_the_declared_range [C17]  at src/tinfl.rs:399:13 in function miniz_oxide::inflate::core::decompress
// no-failing-input-found: the verifier reported the failed obligation without a concrete model.
// Verifier output (tail):
//   	 - Description: "dereference failure: pointer outside object bounds"
//   	 - Location: src/tinfl.rs:182:13 in function tinfl::tinfl_decompress_mem_to_heap
//   
//   Check 242: tinfl::tinfl_decompress_mem_to_heap.pointer_dereference.24
//   	 - Status: SUCCESS
//   	 - Description: "dereference failure: invalid integer address"
//   	 - Location: src/tinfl.rs:182:13 in function tinfl::tinfl_decompress_mem_to_heap
//   
//   Check 243: tinfl::tinfl_decompress_mem_to_heap.pointer_dereference.25
//   	 - Status: SUCCESS
//   	 - Description: "dereference failure: pointer NULL"
//   	 - Location: src/tinfl.rs:202:17 in function tinfl::tinfl_decompress_mem_to_heap
//   
//   Check 244: tinfl::tinfl_decompress_mem_to_heap.pointer_dereference.26
//   	 - Status: SUCCESS
//   	 - Description: "dereference failure: pointer invalid"
//   	 - Location: src/tinfl.rs:202:17 in function tinfl::tinfl_decompress_mem_to_heap
//   
//   Check 245: tinfl::tinfl_decompress_mem_to_heap.pointer_dereference.27
//   	 - Status: SUCCESS
//   	 - Description: "dereference failure: deallocated dynamic object"
//   	 - Location: src/tinfl.rs:202:17 in function tinfl::tinfl_decompress_mem_to_heap
//   
//   Check 246: tinfl::tinfl_decompress_mem_to_heap.pointer_dereference.28
//   	 - Status: SUCCESS
//   	 - Description: "dereference failure: dead object"
//   	 - Location: src/tinfl.rs:202:17 in function tinfl::tinfl_decompress_mem_to_heap
//   
//   Check 247: tinfl::tinfl_decompress_mem_to_heap.pointer_dereference.29
//   	 - Status: SUCCESS
//   	 - Description: "dereference failure: pointer outside object bounds"
//   	 - Location: src/tinfl.rs:202:17 in function tinfl::tinfl_decompress_mem_to_heap
//   
//   Check 248: tinfl::tinfl_decompress_mem_to_heap.pointer_dereference.30
//   	 - Status: SUCCESS
//   	 - Description: "dereference failure: invalid integer address"
//   	 - Location: src/tinfl.rs:202:17 in function tinfl::tinfl_decompress_mem_to_heap
//   
//   Check 249: tinfl::tinfl_decompress_mem_to_heap.unwind.0
//   	 - Status: SUCCESS
//   	 - Description: "unwinding assertion loop 0"
//   	 - Location: src/tinfl.rs:164:9 in function tinfl::tinfl_decompress_mem_to_heap
//   
//   
//   SUMMARY:
//    ** 2 of 247 failed (5 unreachable)
//   
//    ** 2 of 2 cover properties satisfied
//   
//   Failed Checks: dereference failure: pointer invalid
//    File: "/home/runner/.rustup/toolchains/nightly-2026-08-21-x86_64-unknown-linux-gnu/lib/rustlib/src/rust/library/core/src/slice/raw.rs", line 139, in std::slice::from_raw_parts::<'_, u8>
//   Failed Checks: "OBL:tinfl.input_slice_is_exactly_the_unconsumed_rest_of_the_declared_range [C17]"
//    File: "src/tinfl.rs", line 399, in miniz_oxide::inflate::core::decompress
//   
//   VERIFICATION:- FAILED
//   Verification Time: 2.959597s
//   
//   Manual Harness Summary:
//   Verification failed for - tinfl::verif_capi_tinfl::k_capi_tinfl_mem_to_heap
//   Complete - 0 successfully verified harnesses, 1 failures, 1 total.
