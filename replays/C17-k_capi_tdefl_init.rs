// REPLAY for property C17, harness k_capi_tdefl_init (unit K-capi, engine kani)
// Failed obligations:
//   OBL:tdefl.init_with_null_callback_selects_buffer_mode_even_on_reinit [C17]  at src/tdef.rs:613:9 in function tdef::verif_capi_tdef::k_capi_tdefl_init
// no-failing-input-found: the verifier reported the failed obligation without a concrete model.
// Verifier output (tail):
//   Check 805: __rust_realloc.precondition_instance.4
//   	 - Status: SUCCESS
//   	 - Description: "free argument must be NULL or valid pointer"
//   	 - Location: ../../../../root/.kani/kani-0.68.0/library/kani/kani_lib.c:115 in function __rust_realloc
//   
//   Check 806: __rust_realloc.precondition_instance.5
//   	 - Status: SUCCESS
//   	 - Description: "free argument must be dynamic object"
//   	 - Location: ../../../../root/.kani/kani-0.68.0/library/kani/kani_lib.c:115 in function __rust_realloc
//   
//   Check 807: __rust_realloc.precondition_instance.6
//   	 - Status: SUCCESS
//   	 - Description: "free argument has offset zero"
//   	 - Location: ../../../../root/.kani/kani-0.68.0/library/kani/kani_lib.c:115 in function __rust_realloc
//   
//   Check 808: __rust_realloc.precondition_instance.7
//   	 - Status: SUCCESS
//   	 - Description: "double free"
//   	 - Location: ../../../../root/.kani/kani-0.68.0/library/kani/kani_lib.c:115 in function __rust_realloc
//   
//   Check 809: __rust_realloc.precondition_instance.8
//   	 - Status: SUCCESS
//   	 - Description: "free called for new[] object"
//   	 - Location: ../../../../root/.kani/kani-0.68.0/library/kani/kani_lib.c:115 in function __rust_realloc
//   
//   Check 810: __rust_realloc.precondition_instance.9
//   	 - Status: SUCCESS
//   	 - Description: "free called for stack-allocated object"
//   	 - Location: ../../../../root/.kani/kani-0.68.0/library/kani/kani_lib.c:115 in function __rust_realloc
//   
//   Check 811: calloc.pointer_dereference.1
//   	 - Status: SUCCESS
//   	 - Description: "dereference failure: dead object"
//   	 - Location: <builtin-library-calloc>:14 in function calloc
//   
//   Check 812: tdef::tdefl_init.pointer_dereference.1
//   	 - Status: SUCCESS
//   	 - Description: "dereference failure: dead object"
//   	 - Location: src/tdef.rs:275:26 in function tdef::tdefl_init
//   
//   Check 813: tdef::tdefl_init.pointer_dereference.2
//   	 - Status: SUCCESS
//   	 - Description: "dereference failure: dead object"
//   	 - Location: src/tdef.rs:286:19 in function tdef::tdefl_init
//   
//   
//   SUMMARY:
//    ** 1 of 812 failed (7 unreachable)
//   
//    ** 0 of 1 cover properties satisfied
//   
//   Failed Checks: "OBL:tdefl.init_with_null_callback_selects_buffer_mode_even_on_reinit [C17]"
//    File: "src/tdef.rs", line 613, in tdef::verif_capi_tdef::k_capi_tdefl_init
//   
//   VERIFICATION:- FAILED
//   Verification Time: 6.3282833s
//   
//   Manual Harness Summary:
//   Verification failed for - tdef::verif_capi_tdef::k_capi_tdefl_init
//   Complete - 0 successfully verified harnesses, 1 failures, 1 total.
