// REPLAY for property DEV, harness k_inflate_reset_policies (unit K-reset, engine kani)
// Failed obligations:
//   OBL:reset.min_reset_clears_window [C18]  at miniz_oxide/src/inflate/stream.rs:792:13 in function inflate::stream::verif_inflate_stream::k_inflate_reset_policies
// no-failing-input-found: the verifier reported the failed obligation without a concrete model.
// Verifier output (tail):
//   	 - Description: "dereference failure: deallocated dynamic object"
//   	 - Location: miniz_oxide/src/lib.rs:154:23 in function <DataFormat as core::cmp::PartialEq>::eq
//   
//   Check 150: <DataFormat as core::cmp::PartialEq>::eq.pointer_dereference.4
//   	 - Status: SUCCESS
//   	 - Description: "dereference failure: dead object"
//   	 - Location: miniz_oxide/src/lib.rs:154:23 in function <DataFormat as core::cmp::PartialEq>::eq
//   
//   Check 151: <DataFormat as core::cmp::PartialEq>::eq.pointer_dereference.5
//   	 - Status: SUCCESS
//   	 - Description: "dereference failure: pointer outside object bounds"
//   	 - Location: miniz_oxide/src/lib.rs:154:23 in function <DataFormat as core::cmp::PartialEq>::eq
//   
//   Check 152: <DataFormat as core::cmp::PartialEq>::eq.pointer_dereference.6
//   	 - Status: SUCCESS
//   	 - Description: "dereference failure: invalid integer address"
//   	 - Location: miniz_oxide/src/lib.rs:154:23 in function <DataFormat as core::cmp::PartialEq>::eq
//   
//   Check 153: <DataFormat as core::cmp::PartialEq>::eq.pointer_dereference.7
//   	 - Status: SUCCESS
//   	 - Description: "dereference failure: pointer NULL"
//   	 - Location: miniz_oxide/src/lib.rs:154:23 in function <DataFormat as core::cmp::PartialEq>::eq
//   
//   Check 154: <DataFormat as core::cmp::PartialEq>::eq.pointer_dereference.8
//   	 - Status: SUCCESS
//   	 - Description: "dereference failure: pointer invalid"
//   	 - Location: miniz_oxide/src/lib.rs:154:23 in function <DataFormat as core::cmp::PartialEq>::eq
//   
//   Check 155: <DataFormat as core::cmp::PartialEq>::eq.pointer_dereference.9
//   	 - Status: SUCCESS
//   	 - Description: "dereference failure: deallocated dynamic object"
//   	 - Location: miniz_oxide/src/lib.rs:154:23 in function <DataFormat as core::cmp::PartialEq>::eq
//   
//   Check 156: <DataFormat as core::cmp::PartialEq>::eq.pointer_dereference.10
//   	 - Status: SUCCESS
//   	 - Description: "dereference failure: dead object"
//   	 - Location: miniz_oxide/src/lib.rs:154:23 in function <DataFormat as core::cmp::PartialEq>::eq
//   
//   Check 157: <DataFormat as core::cmp::PartialEq>::eq.pointer_dereference.11
//   	 - Status: SUCCESS
//   	 - Description: "dereference failure: pointer outside object bounds"
//   	 - Location: miniz_oxide/src/lib.rs:154:23 in function <DataFormat as core::cmp::PartialEq>::eq
//   
//   Check 158: <DataFormat as core::cmp::PartialEq>::eq.pointer_dereference.12
//   	 - Status: SUCCESS
//   	 - Description: "dereference failure: invalid integer address"
//   	 - Location: miniz_oxide/src/lib.rs:154:23 in function <DataFormat as core::cmp::PartialEq>::eq
//   
//   
//   SUMMARY:
//    ** 1 of 158 failed
//   Failed Checks: "OBL:reset.min_reset_clears_window [C18]"
//    File: "miniz_oxide/src/inflate/stream.rs", line 792, in inflate::stream::verif_inflate_stream::k_inflate_reset_policies
//   
//   VERIFICATION:- FAILED
//   Verification Time: 14.623268s
//   
//   Manual Harness Summary:
//   Verification failed for - inflate::stream::verif_inflate_stream::k_inflate_reset_policies
//   Complete - 0 successfully verified harnesses, 1 failures, 1 total.
