// REPLAY for property C07, harness k_decompress_fast_bounded (unit K-arms, engine kani)
// Failed obligations:
//   OBL:arms.transfer_pre_destination_in_bounds [C05 C08]  at miniz_oxide/src/inflate/core.rs:3398:9 in function inflate::core::verif_inflate_core::model_transfer
// no-failing-input-found: the verifier reported the failed obligation without a concrete model.
// Verifier output (tail):
//   Check 357: <inflate::core::State as core::cmp::PartialEq>::eq.pointer_dereference.6
//   	 - Status: SUCCESS
//   	 - Description: "dereference failure: invalid integer address"
//   	 - Location: miniz_oxide/src/inflate/core.rs:433:23 in function <inflate::core::State as core::cmp::PartialEq>::eq
//   
//   Check 358: <inflate::core::State as core::cmp::PartialEq>::eq.pointer_dereference.7
//   	 - Status: SUCCESS
//   	 - Description: "dereference failure: pointer NULL"
//   	 - Location: miniz_oxide/src/inflate/core.rs:433:23 in function <inflate::core::State as core::cmp::PartialEq>::eq
//   
//   Check 359: <inflate::core::State as core::cmp::PartialEq>::eq.pointer_dereference.8
//   	 - Status: SUCCESS
//   	 - Description: "dereference failure: pointer invalid"
//   	 - Location: miniz_oxide/src/inflate/core.rs:433:23 in function <inflate::core::State as core::cmp::PartialEq>::eq
//   
//   Check 360: <inflate::core::State as core::cmp::PartialEq>::eq.pointer_dereference.9
//   	 - Status: SUCCESS
//   	 - Description: "dereference failure: deallocated dynamic object"
//   	 - Location: miniz_oxide/src/inflate/core.rs:433:23 in function <inflate::core::State as core::cmp::PartialEq>::eq
//   
//   Check 361: <inflate::core::State as core::cmp::PartialEq>::eq.pointer_dereference.10
//   	 - Status: SUCCESS
//   	 - Description: "dereference failure: dead object"
//   	 - Location: miniz_oxide/src/inflate/core.rs:433:23 in function <inflate::core::State as core::cmp::PartialEq>::eq
//   
//   Check 362: <inflate::core::State as core::cmp::PartialEq>::eq.pointer_dereference.11
//   	 - Status: SUCCESS
//   	 - Description: "dereference failure: pointer outside object bounds"
//   	 - Location: miniz_oxide/src/inflate/core.rs:433:23 in function <inflate::core::State as core::cmp::PartialEq>::eq
//   
//   Check 363: <inflate::core::State as core::cmp::PartialEq>::eq.pointer_dereference.12
//   	 - Status: SUCCESS
//   	 - Description: "dereference failure: invalid integer address"
//   	 - Location: miniz_oxide/src/inflate/core.rs:433:23 in function <inflate::core::State as core::cmp::PartialEq>::eq
//   
//   Check 364: inflate::core::decompress_fast.unwind.0
//   	 - Status: SUCCESS
//   	 - Description: "unwinding assertion loop 0"
//   	 - Location: miniz_oxide/src/inflate/core.rs:1236:9 in function inflate::core::decompress_fast
//   
//   Check 365: inflate::core::decompress_fast.unwind.1
//   	 - Status: SUCCESS
//   	 - Description: "unwinding assertion loop 1"
//   	 - Location: miniz_oxide/src/inflate/core.rs:1236:9 in function inflate::core::decompress_fast
//   
//   
//   SUMMARY:
//    ** 1 of 361 failed (3 unreachable)
//   
//    ** 3 of 4 cover properties satisfied
//   
//   Failed Checks: "OBL:arms.transfer_pre_destination_in_bounds [C05 C08]"
//    File: "miniz_oxide/src/inflate/core.rs", line 3398, in inflate::core::verif_inflate_core::model_transfer
//   
//   VERIFICATION:- FAILED
//   Verification Time: 216.40553s
//   
//   Manual Harness Summary:
//   Verification failed for - inflate::core::verif_inflate_core::k_decompress_fast_bounded
//   Complete - 0 successfully verified harnesses, 1 failures, 1 total.
