// REPLAY for property DEV, harness k_compressor_reset (unit K-reset, engine kani)
// Failed obligations:
//   OBL:reset.compressor_buffers_zeroed [C18]  at miniz_oxide/src/deflate/core.rs:3771:9 in function deflate::core::verif_deflate_core::k_compressor_reset
//   OBL:reset.compressor_hash_chains_zeroed [C18]  at miniz_oxide/src/deflate/core.rs:3773:9 in function deflate::core::verif_deflate_core::k_compressor_reset
// no-failing-input-found: the verifier reported the failed obligation without a concrete model.
// Verifier output (tail):
//   
//   Check 1021: __rust_realloc.precondition_instance.2
//   	 - Status: SUCCESS
//   	 - Description: "memcpy source region readable"
//   	 - Location: ../../../../../root/.kani/kani-0.68.0/library/kani/kani_lib.c:114 in function __rust_realloc
//   
//   Check 1022: __rust_realloc.precondition_instance.3
//   	 - Status: SUCCESS
//   	 - Description: "memcpy destination region writeable"
//   	 - Location: ../../../../../root/.kani/kani-0.68.0/library/kani/kani_lib.c:114 in function __rust_realloc
//   
//   Check 1023: __rust_realloc.precondition_instance.4
//   	 - Status: SUCCESS
//   	 - Description: "free argument must be NULL or valid pointer"
//   	 - Location: ../../../../../root/.kani/kani-0.68.0/library/kani/kani_lib.c:115 in function __rust_realloc
//   
//   Check 1024: __rust_realloc.precondition_instance.5
//   	 - Status: SUCCESS
//   	 - Description: "free argument must be dynamic object"
//   	 - Location: ../../../../../root/.kani/kani-0.68.0/library/kani/kani_lib.c:115 in function __rust_realloc
//   
//   Check 1025: __rust_realloc.precondition_instance.6
//   	 - Status: SUCCESS
//   	 - Description: "free argument has offset zero"
//   	 - Location: ../../../../../root/.kani/kani-0.68.0/library/kani/kani_lib.c:115 in function __rust_realloc
//   
//   Check 1026: __rust_realloc.precondition_instance.7
//   	 - Status: SUCCESS
//   	 - Description: "double free"
//   	 - Location: ../../../../../root/.kani/kani-0.68.0/library/kani/kani_lib.c:115 in function __rust_realloc
//   
//   Check 1027: __rust_realloc.precondition_instance.8
//   	 - Status: SUCCESS
//   	 - Description: "free called for new[] object"
//   	 - Location: ../../../../../root/.kani/kani-0.68.0/library/kani/kani_lib.c:115 in function __rust_realloc
//   
//   Check 1028: __rust_realloc.precondition_instance.9
//   	 - Status: SUCCESS
//   	 - Description: "free called for stack-allocated object"
//   	 - Location: ../../../../../root/.kani/kani-0.68.0/library/kani/kani_lib.c:115 in function __rust_realloc
//   
//   Check 1029: calloc.pointer_dereference.1
//   	 - Status: SUCCESS
//   	 - Description: "dereference failure: dead object"
//   	 - Location: <builtin-library-calloc>:14 in function calloc
//   
//   
//   SUMMARY:
//    ** 2 of 1029 failed (15 unreachable)
//   Failed Checks: "OBL:reset.compressor_buffers_zeroed [C18]"
//    File: "miniz_oxide/src/deflate/core.rs", line 3771, in deflate::core::verif_deflate_core::k_compressor_reset
//   Failed Checks: "OBL:reset.compressor_hash_chains_zeroed [C18]"
//    File: "miniz_oxide/src/deflate/core.rs", line 3773, in deflate::core::verif_deflate_core::k_compressor_reset
//   
//   VERIFICATION:- FAILED
//   Verification Time: 181.50262s
//   
//   Manual Harness Summary:
//   Verification failed for - deflate::core::verif_deflate_core::k_compressor_reset
//   Complete - 0 successfully verified harnesses, 1 failures, 1 total.
