// REPLAY for property C08, harness k_decompress_fast_bounded_ring512 (unit K-arms, engine kani)
// Failed obligations:
//   OBL:arms.transfer_pre_destination_in_bounds [C05 C08]  at miniz_oxide/src/inflate/core.rs:3398:9 in function inflate::core::verif_inflate_core::model_transfer
//   attempt to subtract with overflow  at miniz_oxide/src/inflate/output_buffer.rs:61:9 in function inflate::output_buffer::OutputBuffer::<'_>::bytes_left
// no-failing-input-found: the verifier reported the failed obligation without a concrete model.
// Verifier output (tail):
