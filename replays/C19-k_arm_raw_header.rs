// REPLAY for property C19, harness k_arm_raw_header (unit K-arms, engine kani)
// Failed obligations:
//   OBL:arms.empty_stored_block_is_done [C03 C12 C19]  at miniz_oxide/src/inflate/core.rs:3498:17 in function inflate::core::verif_inflate_core::k_arm_raw_header
// no-failing-input-found: the verifier reported the failed obligation without a concrete model.
// Verifier output (tail):
//   Check 378: memcmp.pointer_dereference.5
//   	 - Status: SUCCESS
//   	 - Description: "dereference failure: pointer outside object bounds"
//   	 - Location: <builtin-library-memcmp>:27 in function memcmp
//   
//   Check 379: memcmp.pointer_dereference.6
//   	 - Status: SUCCESS
//   	 - Description: "dereference failure: invalid integer address"
//   	 - Location: <builtin-library-memcmp>:27 in function memcmp
//   
//   Check 380: memcmp.pointer_dereference.7
//   	 - Status: SUCCESS
//   	 - Description: "dereference failure: pointer NULL"
//   	 - Location: <builtin-library-memcmp>:27 in function memcmp
//   
//   Check 381: memcmp.pointer_dereference.8
//   	 - Status: SUCCESS
//   	 - Description: "dereference failure: pointer invalid"
//   	 - Location: <builtin-library-memcmp>:27 in function memcmp
//   
//   Check 382: memcmp.pointer_dereference.9
//   	 - Status: SUCCESS
//   	 - Description: "dereference failure: deallocated dynamic object"
//   	 - Location: <builtin-library-memcmp>:27 in function memcmp
//   
//   Check 383: memcmp.pointer_dereference.10
//   	 - Status: SUCCESS
//   	 - Description: "dereference failure: dead object"
//   	 - Location: <builtin-library-memcmp>:27 in function memcmp
//   
//   Check 384: memcmp.pointer_dereference.11
//   	 - Status: SUCCESS
//   	 - Description: "dereference failure: pointer outside object bounds"
//   	 - Location: <builtin-library-memcmp>:27 in function memcmp
//   
//   Check 385: memcmp.pointer_dereference.12
//   	 - Status: SUCCESS
//   	 - Description: "dereference failure: invalid integer address"
//   	 - Location: <builtin-library-memcmp>:27 in function memcmp
//   
//   Check 386: inflate::core::read_bits::<{closure@miniz_oxide/src/inflate/core.rs:2477:67: 2477:76}>.unwind.0
//   	 - Status: SUCCESS
//   	 - Description: "unwinding assertion loop 0"
//   	 - Location: miniz_oxide/src/inflate/core.rs:768:5 in function inflate::core::read_bits::<{closure@miniz_oxide/src/inflate/core.rs:2477:67: 2477:76}>
//   
//   
//   SUMMARY:
//    ** 1 of 384 failed (5 unreachable)
//   
//    ** 2 of 2 cover properties satisfied
//   
//   Failed Checks: "OBL:arms.empty_stored_block_is_done [C03 C12 C19]"
//    File: "miniz_oxide/src/inflate/core.rs", line 3498, in inflate::core::verif_inflate_core::k_arm_raw_header
//   
//   VERIFICATION:- FAILED
//   Verification Time: 18.046053s
//   
//   Manual Harness Summary:
//   Verification failed for - inflate::core::verif_inflate_core::k_arm_raw_header
//   Complete - 0 successfully verified harnesses, 1 failures, 1 total.
