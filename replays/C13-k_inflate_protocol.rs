// REPLAY for property C13, harness k_inflate_protocol (unit K-inflate, engine kani)
// Failed obligations:
//   OBL:inflate.buf_error_only_for_starved_truncated_or_no_room_on_finish [C13]  at miniz_oxide/src/inflate/stream.rs:702:17 in function inflate::stream::verif_inflate_stream::k_inflate_protocol
// no-failing-input-found: the verifier reported the failed obligation without a concrete model.
// Verifier output (tail):
//   Check 574: <core::result::Result<MZStatus, MZError> as core::cmp::PartialEq>::eq.pointer_dereference.23
//   	 - Status: SUCCESS
//   	 - Description: "dereference failure: pointer outside object bounds"
//   	 - Location: ../../../../../home/runner/.rustup/toolchains/nightly-2026-08-21-x86_64-unknown-linux-gnu/lib/rustlib/src/rust/library/core/src/result.rs:554:16 in function <core::result::Result<MZStatus, MZError> as core::cmp::PartialEq>::eq
//   
//   Check 575: <core::result::Result<MZStatus, MZError> as core::cmp::PartialEq>::eq.pointer_dereference.24
//   	 - Status: SUCCESS
//   	 - Description: "dereference failure: invalid integer address"
//   	 - Location: ../../../../../home/runner/.rustup/toolchains/nightly-2026-08-21-x86_64-unknown-linux-gnu/lib/rustlib/src/rust/library/core/src/result.rs:554:16 in function <core::result::Result<MZStatus, MZError> as core::cmp::PartialEq>::eq
//   
//   Check 576: <core::result::Result<MZStatus, MZError> as core::cmp::PartialEq>::eq.pointer_dereference.25
//   	 - Status: SUCCESS
//   	 - Description: "dereference failure: pointer NULL"
//   	 - Location: ../../../../../home/runner/.rustup/toolchains/nightly-2026-08-21-x86_64-unknown-linux-gnu/lib/rustlib/src/rust/library/core/src/result.rs:554:16 in function <core::result::Result<MZStatus, MZError> as core::cmp::PartialEq>::eq
//   
//   Check 577: <core::result::Result<MZStatus, MZError> as core::cmp::PartialEq>::eq.pointer_dereference.26
//   	 - Status: SUCCESS
//   	 - Description: "dereference failure: pointer invalid"
//   	 - Location: ../../../../../home/runner/.rustup/toolchains/nightly-2026-08-21-x86_64-unknown-linux-gnu/lib/rustlib/src/rust/library/core/src/result.rs:554:16 in function <core::result::Result<MZStatus, MZError> as core::cmp::PartialEq>::eq
//   
//   Check 578: <core::result::Result<MZStatus, MZError> as core::cmp::PartialEq>::eq.pointer_dereference.27
//   	 - Status: SUCCESS
//   	 - Description: "dereference failure: deallocated dynamic object"
//   	 - Location: ../../../../../home/runner/.rustup/toolchains/nightly-2026-08-21-x86_64-unknown-linux-gnu/lib/rustlib/src/rust/library/core/src/result.rs:554:16 in function <core::result::Result<MZStatus, MZError> as core::cmp::PartialEq>::eq
//   
//   Check 579: <core::result::Result<MZStatus, MZError> as core::cmp::PartialEq>::eq.pointer_dereference.28
//   	 - Status: SUCCESS
//   	 - Description: "dereference failure: dead object"
//   	 - Location: ../../../../../home/runner/.rustup/toolchains/nightly-2026-08-21-x86_64-unknown-linux-gnu/lib/rustlib/src/rust/library/core/src/result.rs:554:16 in function <core::result::Result<MZStatus, MZError> as core::cmp::PartialEq>::eq
//   
//   Check 580: <core::result::Result<MZStatus, MZError> as core::cmp::PartialEq>::eq.pointer_dereference.29
//   	 - Status: SUCCESS
//   	 - Description: "dereference failure: pointer outside object bounds"
//   	 - Location: ../../../../../home/runner/.rustup/toolchains/nightly-2026-08-21-x86_64-unknown-linux-gnu/lib/rustlib/src/rust/library/core/src/result.rs:554:16 in function <core::result::Result<MZStatus, MZError> as core::cmp::PartialEq>::eq
//   
//   Check 581: <core::result::Result<MZStatus, MZError> as core::cmp::PartialEq>::eq.pointer_dereference.30
//   	 - Status: SUCCESS
//   	 - Description: "dereference failure: invalid integer address"
//   	 - Location: ../../../../../home/runner/.rustup/toolchains/nightly-2026-08-21-x86_64-unknown-linux-gnu/lib/rustlib/src/rust/library/core/src/result.rs:554:16 in function <core::result::Result<MZStatus, MZError> as core::cmp::PartialEq>::eq
//   
//   Check 582: inflate::stream::inflate_loop.unwind.0
//   	 - Status: SUCCESS
//   	 - Description: "unwinding assertion loop 0"
//   	 - Location: miniz_oxide/src/inflate/stream.rs:307:5 in function inflate::stream::inflate_loop
//   
//   
//   SUMMARY:
//    ** 1 of 579 failed (6 unreachable)
//   
//    ** 3 of 3 cover properties satisfied
//   
//   Failed Checks: "OBL:inflate.buf_error_only_for_starved_truncated_or_no_room_on_finish [C13]"
//    File: "miniz_oxide/src/inflate/stream.rs", line 702, in inflate::stream::verif_inflate_stream::k_inflate_protocol
//   
//   VERIFICATION:- FAILED
//   Verification Time: 39.60288s
//   
//   Manual Harness Summary:
//   Verification failed for - inflate::stream::verif_inflate_stream::k_inflate_protocol
//   Complete - 0 successfully verified harnesses, 1 failures, 1 total.
