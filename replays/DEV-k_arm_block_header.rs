// REPLAY for property DEV, harness k_arm_block_header (unit K-arms, engine kani)
// Failed obligations:
//   OBL:arms.block_header_consumes_exactly_3_bits [C03 C06]  at miniz_oxide/src/inflate/core.rs:3714:17 in function inflate::core::verif_inflate_core::k_arm_block_header
// no-failing-input-found: the verifier reported the failed obligation without a concrete model.
// Verifier output (tail):
//   	 - Description: "dereference failure: pointer outside object bounds"
//   	 - Location: <builtin-library-memcmp>:27 in function memcmp
//   
//   Check 534: memcmp.pointer_dereference.6
//   	 - Status: SUCCESS
//   	 - Description: "dereference failure: invalid integer address"
//   	 - Location: <builtin-library-memcmp>:27 in function memcmp
//   
//   Check 535: memcmp.pointer_dereference.7
//   	 - Status: SUCCESS
//   	 - Description: "dereference failure: pointer NULL"
//   	 - Location: <builtin-library-memcmp>:27 in function memcmp
//   
//   Check 536: memcmp.pointer_dereference.8
//   	 - Status: SUCCESS
//   	 - Description: "dereference failure: pointer invalid"
//   	 - Location: <builtin-library-memcmp>:27 in function memcmp
//   
//   Check 537: memcmp.pointer_dereference.9
//   	 - Status: SUCCESS
//   	 - Description: "dereference failure: deallocated dynamic object"
//   	 - Location: <builtin-library-memcmp>:27 in function memcmp
//   
//   Check 538: memcmp.pointer_dereference.10
//   	 - Status: SUCCESS
//   	 - Description: "dereference failure: dead object"
//   	 - Location: <builtin-library-memcmp>:27 in function memcmp
//   
//   Check 539: memcmp.pointer_dereference.11
//   	 - Status: SUCCESS
//   	 - Description: "dereference failure: pointer outside object bounds"
//   	 - Location: <builtin-library-memcmp>:27 in function memcmp
//   
//   Check 540: memcmp.pointer_dereference.12
//   	 - Status: SUCCESS
//   	 - Description: "dereference failure: invalid integer address"
//   	 - Location: <builtin-library-memcmp>:27 in function memcmp
//   
//   Check 541: inflate::core::read_bits::<{closure@miniz_oxide/src/inflate/core.rs:2432:59: 2432:68}>.unwind.0
//   	 - Status: SUCCESS
//   	 - Description: "unwinding assertion loop 0"
//   	 - Location: miniz_oxide/src/inflate/core.rs:768:5 in function inflate::core::read_bits::<{closure@miniz_oxide/src/inflate/core.rs:2432:59: 2432:68}>
//   
//   Check 542: inflate::core::read_bits::<{closure@miniz_oxide/src/inflate/core.rs:2580:70: 2580:79}>.unwind.0
//   	 - Status: SUCCESS
//   	 - Description: "unwinding assertion loop 0"
//   	 - Location: miniz_oxide/src/inflate/core.rs:768:5 in function inflate::core::read_bits::<{closure@miniz_oxide/src/inflate/core.rs:2580:70: 2580:79}>
//   
//   
//   SUMMARY:
//    ** 1 of 542 failed (3 unreachable)
//   Failed Checks: "OBL:arms.block_header_consumes_exactly_3_bits [C03 C06]"
//    File: "miniz_oxide/src/inflate/core.rs", line 3714, in inflate::core::verif_inflate_core::k_arm_block_header
//   
//   VERIFICATION:- FAILED
//   Verification Time: 56.764263s
//   
//   Manual Harness Summary:
//   Verification failed for - inflate::core::verif_inflate_core::k_arm_block_header
//   Complete - 0 successfully verified harnesses, 1 failures, 1 total.
