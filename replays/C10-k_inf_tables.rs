// REPLAY for property C10, harness k_inf_tables (unit K-tables, engine kani)
// Failed obligations:
//   OBL:tables.code_length_order_is_rfc [C03 C10]  at miniz_oxide/src/inflate/core.rs:3173:13 in function inflate::core::verif_inflate_core::k_inf_tables
// Counterexample from the verifier (Kani concrete playback). Replay against the real code with:
//   /verif/bin/vcheck --replay /verif/replays/C10-k_inf_tables.rs
//@HARNESS core k_inf_tables
/// Test generated for harness `inflate::core::verif_inflate_core::k_inf_tables` 
///
/// Check for `assertion`: ""OBL:tables.code_length_order_is_rfc [C03 C10]""

#[test]
fn kani_concrete_playback_k_inf_tables_10257945595335139846() {
    let concrete_vals: Vec<Vec<u8>> = vec![
        // 18ul
        vec![18, 0, 0, 0, 0, 0, 0, 0],
    ];
    kani::concrete_playback_run(concrete_vals, k_inf_tables);
}

