// REPLAY for property C01, harness k_find_match_chain (unit K-findmatch, engine kani)
// Failed obligations:
//   OBL:findmatch.never_a_zero_distance_even_when_a_chain_entry_is_65536_bytes_old [C01 C10]  at miniz_oxide/src/deflate/core.rs:4175:17 in function deflate::core::verif_deflate_core::k_find_match_chain
// no-failing-input-found: the verifier reported the failed obligation without a concrete model.
// Verifier output (tail):
//   Check 791: __rust_realloc.precondition_instance.2
//   	 - Status: SUCCESS
//   	 - Description: "memcpy source region readable"
//   	 - Location: ../../../../../root/.kani/kani-0.68.0/library/kani/kani_lib.c:114 in function __rust_realloc
//   
//   Check 792: __rust_realloc.precondition_instance.3
//   	 - Status: SUCCESS
//   	 - Description: "memcpy destination region writeable"
//   	 - Location: ../../../../../root/.kani/kani-0.68.0/library/kani/kani_lib.c:114 in function __rust_realloc
//   
//   Check 793: __rust_realloc.precondition_instance.4
//   	 - Status: SUCCESS
//   	 - Description: "free argument must be NULL or valid pointer"
//   	 - Location: ../../../../../root/.kani/kani-0.68.0/library/kani/kani_lib.c:115 in function __rust_realloc
//   
//   Check 794: __rust_realloc.precondition_instance.5
//   	 - Status: SUCCESS
//   	 - Description: "free argument must be dynamic object"
//   	 - Location: ../../../../../root/.kani/kani-0.68.0/library/kani/kani_lib.c:115 in function __rust_realloc
//   
//   Check 795: __rust_realloc.precondition_instance.6
//   	 - Status: SUCCESS
//   	 - Description: "free argument has offset zero"
//   	 - Location: ../../../../../root/.kani/kani-0.68.0/library/kani/kani_lib.c:115 in function __rust_realloc
//   
//   Check 796: __rust_realloc.precondition_instance.7
//   	 - Status: SUCCESS
//   	 - Description: "double free"
//   	 - Location: ../../../../../root/.kani/kani-0.68.0/library/kani/kani_lib.c:115 in function __rust_realloc
//   
//   Check 797: __rust_realloc.precondition_instance.8
//   	 - Status: SUCCESS
//   	 - Description: "free called for new[] object"
//   	 - Location: ../../../../../root/.kani/kani-0.68.0/library/kani/kani_lib.c:115 in function __rust_realloc
//   
//   Check 798: __rust_realloc.precondition_instance.9
//   	 - Status: SUCCESS
//   	 - Description: "free called for stack-allocated object"
//   	 - Location: ../../../../../root/.kani/kani-0.68.0/library/kani/kani_lib.c:115 in function __rust_realloc
//   
//   Check 799: calloc.pointer_dereference.1
//   	 - Status: SUCCESS
//   	 - Description: "dereference failure: dead object"
//   	 - Location: <builtin-library-calloc>:14 in function calloc
//   
//   
//   SUMMARY:
//    ** 1 of 797 failed (8 unreachable)
//   
//    ** 2 of 2 cover properties satisfied
//   
//   Failed Checks: "OBL:findmatch.never_a_zero_distance_even_when_a_chain_entry_is_65536_bytes_old [C01 C10]"
//    File: "miniz_oxide/src/deflate/core.rs", line 4175, in deflate::core::verif_deflate_core::k_find_match_chain
//   
//   VERIFICATION:- FAILED
//   Verification Time: 107.917534s
//   
//   Manual Harness Summary:
//   Verification failed for - deflate::core::verif_deflate_core::k_find_match_chain
//   Complete - 0 successfully verified harnesses, 1 failures, 1 total.
