// REPLAY for property DEV, harness k_enforce_max_code_size_kraft (unit K-huff, engine kani)
// Failed obligations:
//   OBL:huff.length_limited_code_set_is_complete_kraft_sum_1 [C10]  at miniz_oxide/src/deflate/core.rs:3846:9 in function deflate::core::verif_deflate_core::k_enforce_max_code_size_kraft
// Counterexample from the verifier (Kani concrete playback). Replay against the real code with:
//   /verif/bin/vcheck --replay /verif/replays/DEV-k_enforce_max_code_size_kraft.rs
//@HARNESS core k_enforce_max_code_size_kraft
/// Test generated for harness `deflate::core::verif_deflate_core::k_enforce_max_code_size_kraft` 
///
/// Check for `assertion`: ""OBL:huff.length_limited_code_set_is_complete_kraft_sum_1 [C10]""

#[test]
fn kani_concrete_playback_k_enforce_max_code_size_kraft_1437011937010342723() {
    let concrete_vals: Vec<Vec<u8>> = vec![
        // 1
        vec![1],
        // 1
        vec![1],
        // 1
        vec![1],
        // 1
        vec![1],
        // 1
        vec![1],
        // 1
        vec![1],
        // 1
        vec![1],
        // 2
        vec![2],
        // 0
        vec![0],
    ];
    kani::concrete_playback_run(concrete_vals, k_enforce_max_code_size_kraft);
}

/// Test generated for harness `deflate::core::verif_deflate_core::k_enforce_max_code_size_kraft` 
///
/// Check for `cover`: "COV:huff.nine_codes"

#[test]
fn kani_concrete_playback_k_enforce_max_code_size_kraft_3504671876276387310() {
    let concrete_vals: Vec<Vec<u8>> = vec![
        // 1
        vec![1],
        // 1
        vec![1],
        // 0
        vec![0],
        // 2
        vec![2],
        // 3
        vec![3],
        // 2
        vec![2],
        // 0
        vec![0],
        // 0
        vec![0],
        // 0
        vec![0],
    ];
    kani::concrete_playback_run(concrete_vals, k_enforce_max_code_size_kraft);
}

