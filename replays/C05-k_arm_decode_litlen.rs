// REPLAY for property C05, harness k_arm_decode_litlen (unit K-arms, engine kani)
// Failed obligations:
//   OBL:arms.fast_tier_failure_state_is_recorded_so_failure_is_sticky [C04 C05]  at miniz_oxide/src/inflate/core.rs:3956:53 in function inflate::core::verif_inflate_core::k_arm_decode_litlen
//   OBL:arms.fast_tier_done_continues_in_reported_state [C03]  at miniz_oxide/src/inflate/core.rs:3955:36 in function inflate::core::verif_inflate_core::k_arm_decode_litlen
// no-failing-input-found: the verifier reported the failed obligation without a concrete model.
// Verifier output (tail):
//   	 - Description: "dereference failure: dead object"
//   	 - Location: miniz_oxide/src/inflate/core.rs:433:23 in function <inflate::core::State as core::cmp::PartialEq>::eq
//   
//   Check 399: <inflate::core::State as core::cmp::PartialEq>::eq.pointer_dereference.5
//   	 - Status: SUCCESS
//   	 - Description: "dereference failure: pointer outside object bounds"
//   	 - Location: miniz_oxide/src/inflate/core.rs:433:23 in function <inflate::core::State as core::cmp::PartialEq>::eq
//   
//   Check 400: <inflate::core::State as core::cmp::PartialEq>::eq.pointer_dereference.6
//   	 - Status: SUCCESS
//   	 - Description: "dereference failure: invalid integer address"
//   	 - Location: miniz_oxide/src/inflate/core.rs:433:23 in function <inflate::core::State as core::cmp::PartialEq>::eq
//   
//   Check 401: <inflate::core::State as core::cmp::PartialEq>::eq.pointer_dereference.7
//   	 - Status: SUCCESS
//   	 - Description: "dereference failure: pointer NULL"
//   	 - Location: miniz_oxide/src/inflate/core.rs:433:23 in function <inflate::core::State as core::cmp::PartialEq>::eq
//   
//   Check 402: <inflate::core::State as core::cmp::PartialEq>::eq.pointer_dereference.8
//   	 - Status: SUCCESS
//   	 - Description: "dereference failure: pointer invalid"
//   	 - Location: miniz_oxide/src/inflate/core.rs:433:23 in function <inflate::core::State as core::cmp::PartialEq>::eq
//   
//   Check 403: <inflate::core::State as core::cmp::PartialEq>::eq.pointer_dereference.9
//   	 - Status: SUCCESS
//   	 - Description: "dereference failure: deallocated dynamic object"
//   	 - Location: miniz_oxide/src/inflate/core.rs:433:23 in function <inflate::core::State as core::cmp::PartialEq>::eq
//   
//   Check 404: <inflate::core::State as core::cmp::PartialEq>::eq.pointer_dereference.10
//   	 - Status: SUCCESS
//   	 - Description: "dereference failure: dead object"
//   	 - Location: miniz_oxide/src/inflate/core.rs:433:23 in function <inflate::core::State as core::cmp::PartialEq>::eq
//   
//   Check 405: <inflate::core::State as core::cmp::PartialEq>::eq.pointer_dereference.11
//   	 - Status: SUCCESS
//   	 - Description: "dereference failure: pointer outside object bounds"
//   	 - Location: miniz_oxide/src/inflate/core.rs:433:23 in function <inflate::core::State as core::cmp::PartialEq>::eq
//   
//   Check 406: <inflate::core::State as core::cmp::PartialEq>::eq.pointer_dereference.12
//   	 - Status: SUCCESS
//   	 - Description: "dereference failure: invalid integer address"
//   	 - Location: miniz_oxide/src/inflate/core.rs:433:23 in function <inflate::core::State as core::cmp::PartialEq>::eq
//   
//   
//   SUMMARY:
//    ** 2 of 404 failed (4 unreachable)
//   
//    ** 2 of 2 cover properties satisfied
//   
//   Failed Checks: "OBL:arms.fast_tier_failure_state_is_recorded_so_failure_is_sticky [C04 C05]"
//    File: "miniz_oxide/src/inflate/core.rs", line 3956, in inflate::core::verif_inflate_core::k_arm_decode_litlen
//   Failed Checks: "OBL:arms.fast_tier_done_continues_in_reported_state [C03]"
//    File: "miniz_oxide/src/inflate/core.rs", line 3955, in inflate::core::verif_inflate_core::k_arm_decode_litlen
//   
//   VERIFICATION:- FAILED
//   Verification Time: 15.677578s
//   
//   Manual Harness Summary:
//   Verification failed for - inflate::core::verif_inflate_core::k_arm_decode_litlen
//   Complete - 0 successfully verified harnesses, 1 failures, 1 total.
