// REPLAY for property C19, harness k_decompress_fast_bounded_ring512 (unit K-arms, engine kani)
// Failed obligations:
//   OBL:fast.end_of_block_symbol_and_only_it_hands_over_to_block_done [C03 C19 C07]  at miniz_oxide/src/inflate/core.rs:4153:13 in function inflate::core::verif_inflate_core::decompress_fast_body::<520>
// no-failing-input-found: the verifier reported the failed obligation without a concrete model.
// Verifier output (tail):
//   Check 364: <inflate::core::State as core::cmp::PartialEq>::eq.pointer_dereference.6
//   	 - Status: SUCCESS
//   	 - Description: "dereference failure: invalid integer address"
//   	 - Location: miniz_oxide/src/inflate/core.rs:433:23 in function <inflate::core::State as core::cmp::PartialEq>::eq
//   
//   Check 365: <inflate::core::State as core::cmp::PartialEq>::eq.pointer_dereference.7
//   	 - Status: SUCCESS
//   	 - Description: "dereference failure: pointer NULL"
//   	 - Location: miniz_oxide/src/inflate/core.rs:433:23 in function <inflate::core::State as core::cmp::PartialEq>::eq
//   
//   Check 366: <inflate::core::State as core::cmp::PartialEq>::eq.pointer_dereference.8
//   	 - Status: SUCCESS
//   	 - Description: "dereference failure: pointer invalid"
//   	 - Location: miniz_oxide/src/inflate/core.rs:433:23 in function <inflate::core::State as core::cmp::PartialEq>::eq
//   
//   Check 367: <inflate::core::State as core::cmp::PartialEq>::eq.pointer_dereference.9
//   	 - Status: SUCCESS
//   	 - Description: "dereference failure: deallocated dynamic object"
//   	 - Location: miniz_oxide/src/inflate/core.rs:433:23 in function <inflate::core::State as core::cmp::PartialEq>::eq
//   
//   Check 368: <inflate::core::State as core::cmp::PartialEq>::eq.pointer_dereference.10
//   	 - Status: SUCCESS
//   	 - Description: "dereference failure: dead object"
//   	 - Location: miniz_oxide/src/inflate/core.rs:433:23 in function <inflate::core::State as core::cmp::PartialEq>::eq
//   
//   Check 369: <inflate::core::State as core::cmp::PartialEq>::eq.pointer_dereference.11
//   	 - Status: SUCCESS
//   	 - Description: "dereference failure: pointer outside object bounds"
//   	 - Location: miniz_oxide/src/inflate/core.rs:433:23 in function <inflate::core::State as core::cmp::PartialEq>::eq
//   
//   Check 370: <inflate::core::State as core::cmp::PartialEq>::eq.pointer_dereference.12
//   	 - Status: SUCCESS
//   	 - Description: "dereference failure: invalid integer address"
//   	 - Location: miniz_oxide/src/inflate/core.rs:433:23 in function <inflate::core::State as core::cmp::PartialEq>::eq
//   
//   Check 371: inflate::core::decompress_fast.unwind.0
//   	 - Status: SUCCESS
//   	 - Description: "unwinding assertion loop 0"
//   	 - Location: miniz_oxide/src/inflate/core.rs:1236:9 in function inflate::core::decompress_fast
//   
//   Check 372: inflate::core::decompress_fast.unwind.1
//   	 - Status: SUCCESS
//   	 - Description: "unwinding assertion loop 1"
//   	 - Location: miniz_oxide/src/inflate/core.rs:1236:9 in function inflate::core::decompress_fast
//   
//   
//   SUMMARY:
//    ** 1 of 367 failed (2 unreachable)
//   
//    ** 5 of 5 cover properties satisfied
//   
//   Failed Checks: "OBL:fast.end_of_block_symbol_and_only_it_hands_over_to_block_done [C03 C19 C07]"
//    File: "miniz_oxide/src/inflate/core.rs", line 4153, in inflate::core::verif_inflate_core::decompress_fast_body::<520>
//   
//   VERIFICATION:- FAILED
//   Verification Time: 197.76222s
//   
//   Manual Harness Summary:
//   Verification failed for - inflate::core::verif_inflate_core::k_decompress_fast_bounded_ring512
//   Complete - 0 successfully verified harnesses, 1 failures, 1 total.
