// REPLAY for property C04, harness k_arm_symbols (unit K-arms, engine kani)
// Failed obligations:
//   OBL:arms.undefined_length_symbols_286_287_rejected [C04]  at miniz_oxide/src/inflate/core.rs:3660:33 in function inflate::core::verif_inflate_core::k_arm_symbols
// no-failing-input-found: the verifier reported the failed obligation without a concrete model.
// Verifier output (tail):
//   	 - Description: "dereference failure: pointer outside object bounds"
//   	 - Location: ../../../../../home/runner/.rustup/toolchains/nightly-2026-08-21-x86_64-unknown-linux-gnu/lib/rustlib/src/rust/library/core/src/cmp.rs:2192:50 in function core::cmp::impls::<impl core::cmp::PartialOrd for usize>::lt
//   
//   Check 418: core::cmp::impls::<impl core::cmp::PartialOrd for usize>::lt.pointer_dereference.6
//   	 - Status: SUCCESS
//   	 - Description: "dereference failure: invalid integer address"
//   	 - Location: ../../../../../home/runner/.rustup/toolchains/nightly-2026-08-21-x86_64-unknown-linux-gnu/lib/rustlib/src/rust/library/core/src/cmp.rs:2192:50 in function core::cmp::impls::<impl core::cmp::PartialOrd for usize>::lt
//   
//   Check 419: core::cmp::impls::<impl core::cmp::PartialOrd for usize>::lt.pointer_dereference.7
//   	 - Status: SUCCESS
//   	 - Description: "dereference failure: pointer NULL"
//   	 - Location: ../../../../../home/runner/.rustup/toolchains/nightly-2026-08-21-x86_64-unknown-linux-gnu/lib/rustlib/src/rust/library/core/src/cmp.rs:2192:59 in function core::cmp::impls::<impl core::cmp::PartialOrd for usize>::lt
//   
//   Check 420: core::cmp::impls::<impl core::cmp::PartialOrd for usize>::lt.pointer_dereference.8
//   	 - Status: SUCCESS
//   	 - Description: "dereference failure: pointer invalid"
//   	 - Location: ../../../../../home/runner/.rustup/toolchains/nightly-2026-08-21-x86_64-unknown-linux-gnu/lib/rustlib/src/rust/library/core/src/cmp.rs:2192:59 in function core::cmp::impls::<impl core::cmp::PartialOrd for usize>::lt
//   
//   Check 421: core::cmp::impls::<impl core::cmp::PartialOrd for usize>::lt.pointer_dereference.9
//   	 - Status: SUCCESS
//   	 - Description: "dereference failure: deallocated dynamic object"
//   	 - Location: ../../../../../home/runner/.rustup/toolchains/nightly-2026-08-21-x86_64-unknown-linux-gnu/lib/rustlib/src/rust/library/core/src/cmp.rs:2192:59 in function core::cmp::impls::<impl core::cmp::PartialOrd for usize>::lt
//   
//   Check 422: core::cmp::impls::<impl core::cmp::PartialOrd for usize>::lt.pointer_dereference.10
//   	 - Status: SUCCESS
//   	 - Description: "dereference failure: dead object"
//   	 - Location: ../../../../../home/runner/.rustup/toolchains/nightly-2026-08-21-x86_64-unknown-linux-gnu/lib/rustlib/src/rust/library/core/src/cmp.rs:2192:59 in function core::cmp::impls::<impl core::cmp::PartialOrd for usize>::lt
//   
//   Check 423: core::cmp::impls::<impl core::cmp::PartialOrd for usize>::lt.pointer_dereference.11
//   	 - Status: SUCCESS
//   	 - Description: "dereference failure: pointer outside object bounds"
//   	 - Location: ../../../../../home/runner/.rustup/toolchains/nightly-2026-08-21-x86_64-unknown-linux-gnu/lib/rustlib/src/rust/library/core/src/cmp.rs:2192:59 in function core::cmp::impls::<impl core::cmp::PartialOrd for usize>::lt
//   
//   Check 424: core::cmp::impls::<impl core::cmp::PartialOrd for usize>::lt.pointer_dereference.12
//   	 - Status: SUCCESS
//   	 - Description: "dereference failure: invalid integer address"
//   	 - Location: ../../../../../home/runner/.rustup/toolchains/nightly-2026-08-21-x86_64-unknown-linux-gnu/lib/rustlib/src/rust/library/core/src/cmp.rs:2192:59 in function core::cmp::impls::<impl core::cmp::PartialOrd for usize>::lt
//   
//   Check 425: inflate::core::read_bits::<{closure@miniz_oxide/src/inflate/core.rs:2837:67: 2837:82}>.unwind.0
//   	 - Status: SUCCESS
//   	 - Description: "unwinding assertion loop 0"
//   	 - Location: miniz_oxide/src/inflate/core.rs:768:5 in function inflate::core::read_bits::<{closure@miniz_oxide/src/inflate/core.rs:2837:67: 2837:82}>
//   
//   Check 426: inflate::core::read_bits::<{closure@miniz_oxide/src/inflate/core.rs:2877:67: 2877:82}>.unwind.0
//   	 - Status: SUCCESS
//   	 - Description: "unwinding assertion loop 0"
//   	 - Location: miniz_oxide/src/inflate/core.rs:768:5 in function inflate::core::read_bits::<{closure@miniz_oxide/src/inflate/core.rs:2877:67: 2877:82}>
//   
//   
//   SUMMARY:
//    ** 1 of 426 failed (1 unreachable)
//   Failed Checks: "OBL:arms.undefined_length_symbols_286_287_rejected [C04]"
//    File: "miniz_oxide/src/inflate/core.rs", line 3660, in inflate::core::verif_inflate_core::k_arm_symbols
//   
//   VERIFICATION:- FAILED
//   Verification Time: 117.120285s
//   
//   Manual Harness Summary:
//   Verification failed for - inflate::core::verif_inflate_core::k_arm_symbols
//   Complete - 0 successfully verified harnesses, 1 failures, 1 total.
