// REPLAY for property C03, harness k_apply_match_tiny_buffer (unit K-applymatch, engine kani)
// Failed obligations:
//   OBL:applymatch.result_is_the_rfc_copy_and_nothing_else_changes [C03 C07 C08]  at miniz_oxide/src/inflate/core.rs:4304:9 in function inflate::core::verif_inflate_core::apply_match_body::<8>
// no-failing-input-found: the verifier reported the failed obligation without a concrete model.
// Verifier output (tail):
//   Check 386: core::cmp::impls::<impl core::cmp::PartialOrd for usize>::lt.pointer_dereference.12
//   	 - Status: SUCCESS
//   	 - Description: "dereference failure: invalid integer address"
//   	 - Location: ../../../../../home/runner/.rustup/toolchains/nightly-2026-08-21-x86_64-unknown-linux-gnu/lib/rustlib/src/rust/library/core/src/cmp.rs:2192:59 in function core::cmp::impls::<impl core::cmp::PartialOrd for usize>::lt
//   
//   Check 387: <core::ops::RangeInclusive<usize> as core::ops::RangeBounds<usize>>::end_bound.pointer_dereference.1
//   	 - Status: SUCCESS
//   	 - Description: "dereference failure: pointer NULL"
//   	 - Location: ../../../../../home/runner/.rustup/toolchains/nightly-2026-08-21-x86_64-unknown-linux-gnu/lib/rustlib/src/rust/library/core/src/ops/range.rs:1141:12 in function <core::ops::RangeInclusive<usize> as core::ops::RangeBounds<usize>>::end_bound
//   
//   Check 388: <core::ops::RangeInclusive<usize> as core::ops::RangeBounds<usize>>::end_bound.pointer_dereference.2
//   	 - Status: SUCCESS
//   	 - Description: "dereference failure: pointer invalid"
//   	 - Location: ../../../../../home/runner/.rustup/toolchains/nightly-2026-08-21-x86_64-unknown-linux-gnu/lib/rustlib/src/rust/library/core/src/ops/range.rs:1141:12 in function <core::ops::RangeInclusive<usize> as core::ops::RangeBounds<usize>>::end_bound
//   
//   Check 389: <core::ops::RangeInclusive<usize> as core::ops::RangeBounds<usize>>::end_bound.pointer_dereference.3
//   	 - Status: SUCCESS
//   	 - Description: "dereference failure: deallocated dynamic object"
//   	 - Location: ../../../../../home/runner/.rustup/toolchains/nightly-2026-08-21-x86_64-unknown-linux-gnu/lib/rustlib/src/rust/library/core/src/ops/range.rs:1141:12 in function <core::ops::RangeInclusive<usize> as core::ops::RangeBounds<usize>>::end_bound
//   
//   Check 390: <core::ops::RangeInclusive<usize> as core::ops::RangeBounds<usize>>::end_bound.pointer_dereference.4
//   	 - Status: SUCCESS
//   	 - Description: "dereference failure: dead object"
//   	 - Location: ../../../../../home/runner/.rustup/toolchains/nightly-2026-08-21-x86_64-unknown-linux-gnu/lib/rustlib/src/rust/library/core/src/ops/range.rs:1141:12 in function <core::ops::RangeInclusive<usize> as core::ops::RangeBounds<usize>>::end_bound
//   
//   Check 391: <core::ops::RangeInclusive<usize> as core::ops::RangeBounds<usize>>::end_bound.pointer_dereference.5
//   	 - Status: SUCCESS
//   	 - Description: "dereference failure: pointer outside object bounds"
//   	 - Location: ../../../../../home/runner/.rustup/toolchains/nightly-2026-08-21-x86_64-unknown-linux-gnu/lib/rustlib/src/rust/library/core/src/ops/range.rs:1141:12 in function <core::ops::RangeInclusive<usize> as core::ops::RangeBounds<usize>>::end_bound
//   
//   Check 392: <core::ops::RangeInclusive<usize> as core::ops::RangeBounds<usize>>::end_bound.pointer_dereference.6
//   	 - Status: SUCCESS
//   	 - Description: "dereference failure: invalid integer address"
//   	 - Location: ../../../../../home/runner/.rustup/toolchains/nightly-2026-08-21-x86_64-unknown-linux-gnu/lib/rustlib/src/rust/library/core/src/ops/range.rs:1141:12 in function <core::ops::RangeInclusive<usize> as core::ops::RangeBounds<usize>>::end_bound
//   
//   Check 393: inflate::core::transfer.unwind.0
//   	 - Status: SUCCESS
//   	 - Description: "unwinding assertion loop 0"
//   	 - Location: miniz_oxide/src/inflate/core.rs:1109:9 in function inflate::core::transfer
//   
//   Check 394: inflate::core::transfer.unwind.1
//   	 - Status: SUCCESS
//   	 - Description: "unwinding assertion loop 1"
//   	 - Location: miniz_oxide/src/inflate/core.rs:1116:9 in function inflate::core::transfer
//   
//   
//   SUMMARY:
//    ** 1 of 391 failed (13 unreachable)
//   
//    ** 3 of 3 cover properties satisfied
//   
//   Failed Checks: "OBL:applymatch.result_is_the_rfc_copy_and_nothing_else_changes [C03 C07 C08]"
//    File: "miniz_oxide/src/inflate/core.rs", line 4304, in inflate::core::verif_inflate_core::apply_match_body::<8>
//   
//   VERIFICATION:- FAILED
//   Verification Time: 82.461914s
//   
//   Manual Harness Summary:
//   Verification failed for - inflate::core::verif_inflate_core::k_apply_match_tiny_buffer
//   Complete - 0 successfully verified harnesses, 1 failures, 1 total.
