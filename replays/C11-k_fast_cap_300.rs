// REPLAY for property C11, harness k_fast_cap_300 (unit K-fastcap, engine kani)
// Failed obligations:
//   OBL:fastcap.match_distance_within_the_window_declared_for_window_bits [C11]  at miniz_oxide/src/deflate/core.rs:3995:13 in function deflate::core::verif_deflate_core::fast_cap_body
// no-failing-input-found: the verifier reported the failed obligation without a concrete model.
// Verifier output (tail):
//   Check 1704: __rust_realloc.precondition_instance.2
//   	 - Status: SUCCESS
//   	 - Description: "memcpy source region readable"
//   	 - Location: ../../../../../root/.kani/kani-0.68.0/library/kani/kani_lib.c:114 in function __rust_realloc
//   
//   Check 1705: __rust_realloc.precondition_instance.3
//   	 - Status: SUCCESS
//   	 - Description: "memcpy destination region writeable"
//   	 - Location: ../../../../../root/.kani/kani-0.68.0/library/kani/kani_lib.c:114 in function __rust_realloc
//   
//   Check 1706: __rust_realloc.precondition_instance.4
//   	 - Status: SUCCESS
//   	 - Description: "free argument must be NULL or valid pointer"
//   	 - Location: ../../../../../root/.kani/kani-0.68.0/library/kani/kani_lib.c:115 in function __rust_realloc
//   
//   Check 1707: __rust_realloc.precondition_instance.5
//   	 - Status: SUCCESS
//   	 - Description: "free argument must be dynamic object"
//   	 - Location: ../../../../../root/.kani/kani-0.68.0/library/kani/kani_lib.c:115 in function __rust_realloc
//   
//   Check 1708: __rust_realloc.precondition_instance.6
//   	 - Status: SUCCESS
//   	 - Description: "free argument has offset zero"
//   	 - Location: ../../../../../root/.kani/kani-0.68.0/library/kani/kani_lib.c:115 in function __rust_realloc
//   
//   Check 1709: __rust_realloc.precondition_instance.7
//   	 - Status: SUCCESS
//   	 - Description: "double free"
//   	 - Location: ../../../../../root/.kani/kani-0.68.0/library/kani/kani_lib.c:115 in function __rust_realloc
//   
//   Check 1710: __rust_realloc.precondition_instance.8
//   	 - Status: SUCCESS
//   	 - Description: "free called for new[] object"
//   	 - Location: ../../../../../root/.kani/kani-0.68.0/library/kani/kani_lib.c:115 in function __rust_realloc
//   
//   Check 1711: __rust_realloc.precondition_instance.9
//   	 - Status: SUCCESS
//   	 - Description: "free called for stack-allocated object"
//   	 - Location: ../../../../../root/.kani/kani-0.68.0/library/kani/kani_lib.c:115 in function __rust_realloc
//   
//   Check 1712: calloc.pointer_dereference.1
//   	 - Status: SUCCESS
//   	 - Description: "dereference failure: dead object"
//   	 - Location: <builtin-library-calloc>:14 in function calloc
//   
//   
//   SUMMARY:
//    ** 1 of 1710 failed (52 unreachable)
//   
//    ** 1 of 2 cover properties satisfied
//   
//   Failed Checks: "OBL:fastcap.match_distance_within_the_window_declared_for_window_bits [C11]"
//    File: "miniz_oxide/src/deflate/core.rs", line 3995, in deflate::core::verif_deflate_core::fast_cap_body
//   
//   VERIFICATION:- FAILED
//   Verification Time: 135.41432s
//   
//   Manual Harness Summary:
//   Verification failed for - deflate::core::verif_deflate_core::k_fast_cap_300
//   Complete - 0 successfully verified harnesses, 1 failures, 1 total.
