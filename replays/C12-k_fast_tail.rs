// REPLAY for property C12, harness k_fast_tail (unit K-fasttail, engine kani)
// Failed obligations:
//   OBL:fasttail.flush_request_drains_even_a_1_to_3_byte_lookahead [C12 C02]  at miniz_oxide/src/deflate/core.rs:3878:9 in function deflate::core::verif_deflate_core::fast_tail_body::<0>
// no-failing-input-found: the verifier reported the failed obligation without a concrete model.
// Verifier output (tail):
//   	 - Description: "memcpy src/dst overlap"
//   	 - Location: ../../../../../root/.kani/kani-0.68.0/library/kani/kani_lib.c:114 in function __rust_realloc
//   
//   Check 1643: __rust_realloc.precondition_instance.2
//   	 - Status: SUCCESS
//   	 - Description: "memcpy source region readable"
//   	 - Location: ../../../../../root/.kani/kani-0.68.0/library/kani/kani_lib.c:114 in function __rust_realloc
//   
//   Check 1644: __rust_realloc.precondition_instance.3
//   	 - Status: SUCCESS
//   	 - Description: "memcpy destination region writeable"
//   	 - Location: ../../../../../root/.kani/kani-0.68.0/library/kani/kani_lib.c:114 in function __rust_realloc
//   
//   Check 1645: __rust_realloc.precondition_instance.4
//   	 - Status: SUCCESS
//   	 - Description: "free argument must be NULL or valid pointer"
//   	 - Location: ../../../../../root/.kani/kani-0.68.0/library/kani/kani_lib.c:115 in function __rust_realloc
//   
//   Check 1646: __rust_realloc.precondition_instance.5
//   	 - Status: SUCCESS
//   	 - Description: "free argument must be dynamic object"
//   	 - Location: ../../../../../root/.kani/kani-0.68.0/library/kani/kani_lib.c:115 in function __rust_realloc
//   
//   Check 1647: __rust_realloc.precondition_instance.6
//   	 - Status: SUCCESS
//   	 - Description: "free argument has offset zero"
//   	 - Location: ../../../../../root/.kani/kani-0.68.0/library/kani/kani_lib.c:115 in function __rust_realloc
//   
//   Check 1648: __rust_realloc.precondition_instance.7
//   	 - Status: SUCCESS
//   	 - Description: "double free"
//   	 - Location: ../../../../../root/.kani/kani-0.68.0/library/kani/kani_lib.c:115 in function __rust_realloc
//   
//   Check 1649: __rust_realloc.precondition_instance.8
//   	 - Status: SUCCESS
//   	 - Description: "free called for new[] object"
//   	 - Location: ../../../../../root/.kani/kani-0.68.0/library/kani/kani_lib.c:115 in function __rust_realloc
//   
//   Check 1650: __rust_realloc.precondition_instance.9
//   	 - Status: SUCCESS
//   	 - Description: "free called for stack-allocated object"
//   	 - Location: ../../../../../root/.kani/kani-0.68.0/library/kani/kani_lib.c:115 in function __rust_realloc
//   
//   Check 1651: calloc.pointer_dereference.1
//   	 - Status: SUCCESS
//   	 - Description: "dereference failure: dead object"
//   	 - Location: <builtin-library-calloc>:14 in function calloc
//   
//   
//   SUMMARY:
//    ** 1 of 1651 failed (137 unreachable)
//   Failed Checks: "OBL:fasttail.flush_request_drains_even_a_1_to_3_byte_lookahead [C12 C02]"
//    File: "miniz_oxide/src/deflate/core.rs", line 3878, in deflate::core::verif_deflate_core::fast_tail_body::<0>
//   
//   VERIFICATION:- FAILED
//   Verification Time: 100.09408s
//   
//   Manual Harness Summary:
//   Verification failed for - deflate::core::verif_deflate_core::k_fast_tail
//   Complete - 0 successfully verified harnesses, 1 failures, 1 total.
