// REPLAY for property C12, harness k_normal_rle_first_token (unit K-normal-early, engine kani)
// Failed obligations:
//   OBL:normal.match_never_reaches_before_start_of_data [C10 C01]  at miniz_oxide/src/deflate/core.rs:3604:9 in function deflate::core::record_match
// no-failing-input-found: the verifier reported the failed obligation without a concrete model.
// Verifier output (tail):
//   Check 1552: __rust_realloc.precondition_instance.2
//   	 - Status: SUCCESS
//   	 - Description: "memcpy source region readable"
//   	 - Location: ../../../../../root/.kani/kani-0.68.0/library/kani/kani_lib.c:114 in function __rust_realloc
//   
//   Check 1553: __rust_realloc.precondition_instance.3
//   	 - Status: SUCCESS
//   	 - Description: "memcpy destination region writeable"
//   	 - Location: ../../../../../root/.kani/kani-0.68.0/library/kani/kani_lib.c:114 in function __rust_realloc
//   
//   Check 1554: __rust_realloc.precondition_instance.4
//   	 - Status: SUCCESS
//   	 - Description: "free argument must be NULL or valid pointer"
//   	 - Location: ../../../../../root/.kani/kani-0.68.0/library/kani/kani_lib.c:115 in function __rust_realloc
//   
//   Check 1555: __rust_realloc.precondition_instance.5
//   	 - Status: SUCCESS
//   	 - Description: "free argument must be dynamic object"
//   	 - Location: ../../../../../root/.kani/kani-0.68.0/library/kani/kani_lib.c:115 in function __rust_realloc
//   
//   Check 1556: __rust_realloc.precondition_instance.6
//   	 - Status: SUCCESS
//   	 - Description: "free argument has offset zero"
//   	 - Location: ../../../../../root/.kani/kani-0.68.0/library/kani/kani_lib.c:115 in function __rust_realloc
//   
//   Check 1557: __rust_realloc.precondition_instance.7
//   	 - Status: SUCCESS
//   	 - Description: "double free"
//   	 - Location: ../../../../../root/.kani/kani-0.68.0/library/kani/kani_lib.c:115 in function __rust_realloc
//   
//   Check 1558: __rust_realloc.precondition_instance.8
//   	 - Status: SUCCESS
//   	 - Description: "free called for new[] object"
//   	 - Location: ../../../../../root/.kani/kani-0.68.0/library/kani/kani_lib.c:115 in function __rust_realloc
//   
//   Check 1559: __rust_realloc.precondition_instance.9
//   	 - Status: SUCCESS
//   	 - Description: "free called for stack-allocated object"
//   	 - Location: ../../../../../root/.kani/kani-0.68.0/library/kani/kani_lib.c:115 in function __rust_realloc
//   
//   Check 1560: calloc.pointer_dereference.1
//   	 - Status: SUCCESS
//   	 - Description: "dereference failure: dead object"
//   	 - Location: <builtin-library-calloc>:14 in function calloc
//   
//   
//   SUMMARY:
//    ** 1 of 1558 failed (52 unreachable)
//   
//    ** 2 of 2 cover properties satisfied
//   
//   Failed Checks: "OBL:normal.match_never_reaches_before_start_of_data [C10 C01]"
//    File: "miniz_oxide/src/deflate/core.rs", line 3604, in deflate::core::record_match
//   
//   VERIFICATION:- FAILED
//   Verification Time: 82.01619s
//   
//   Manual Harness Summary:
//   Verification failed for - deflate::core::verif_deflate_core::k_normal_rle_first_token
//   Complete - 0 successfully verified harnesses, 1 failures, 1 total.
