// REPLAY for property C19, harness k_serde_visits_every_decoder_field (unit K-serde, engine kani)
// Failed obligations:
//   OBL:serde.every_decoder_field_is_serialized_none_skipped [C19]  at miniz_oxide/src/inflate/core.rs:4572:9 in function inflate::core::verif_inflate_core::k_serde_visits_every_decoder_field
// no-failing-input-found: the verifier reported the failed obligation without a concrete model.
// Verifier output (tail):
//   	 - Description: "dereference failure: deallocated dynamic object"
//   	 - Location: miniz_oxide/src/inflate/core.rs:4527:36 in function inflate::core::verif_inflate_core::serde_rec::same
//   
//   Check 133: inflate::core::verif_inflate_core::serde_rec::same.pointer_dereference.4
//   	 - Status: SUCCESS
//   	 - Description: "dereference failure: dead object"
//   	 - Location: miniz_oxide/src/inflate/core.rs:4527:36 in function inflate::core::verif_inflate_core::serde_rec::same
//   
//   Check 134: inflate::core::verif_inflate_core::serde_rec::same.pointer_dereference.5
//   	 - Status: SUCCESS
//   	 - Description: "dereference failure: pointer outside object bounds"
//   	 - Location: miniz_oxide/src/inflate/core.rs:4527:36 in function inflate::core::verif_inflate_core::serde_rec::same
//   
//   Check 135: inflate::core::verif_inflate_core::serde_rec::same.pointer_dereference.6
//   	 - Status: SUCCESS
//   	 - Description: "dereference failure: invalid integer address"
//   	 - Location: miniz_oxide/src/inflate/core.rs:4527:36 in function inflate::core::verif_inflate_core::serde_rec::same
//   
//   Check 136: inflate::core::verif_inflate_core::serde_rec::same.pointer_dereference.7
//   	 - Status: SUCCESS
//   	 - Description: "dereference failure: pointer NULL"
//   	 - Location: miniz_oxide/src/inflate/core.rs:4527:44 in function inflate::core::verif_inflate_core::serde_rec::same
//   
//   Check 137: inflate::core::verif_inflate_core::serde_rec::same.pointer_dereference.8
//   	 - Status: SUCCESS
//   	 - Description: "dereference failure: pointer invalid"
//   	 - Location: miniz_oxide/src/inflate/core.rs:4527:44 in function inflate::core::verif_inflate_core::serde_rec::same
//   
//   Check 138: inflate::core::verif_inflate_core::serde_rec::same.pointer_dereference.9
//   	 - Status: SUCCESS
//   	 - Description: "dereference failure: deallocated dynamic object"
//   	 - Location: miniz_oxide/src/inflate/core.rs:4527:44 in function inflate::core::verif_inflate_core::serde_rec::same
//   
//   Check 139: inflate::core::verif_inflate_core::serde_rec::same.pointer_dereference.10
//   	 - Status: SUCCESS
//   	 - Description: "dereference failure: dead object"
//   	 - Location: miniz_oxide/src/inflate/core.rs:4527:44 in function inflate::core::verif_inflate_core::serde_rec::same
//   
//   Check 140: inflate::core::verif_inflate_core::serde_rec::same.pointer_dereference.11
//   	 - Status: SUCCESS
//   	 - Description: "dereference failure: pointer outside object bounds"
//   	 - Location: miniz_oxide/src/inflate/core.rs:4527:44 in function inflate::core::verif_inflate_core::serde_rec::same
//   
//   Check 141: inflate::core::verif_inflate_core::serde_rec::same.pointer_dereference.12
//   	 - Status: SUCCESS
//   	 - Description: "dereference failure: invalid integer address"
//   	 - Location: miniz_oxide/src/inflate/core.rs:4527:44 in function inflate::core::verif_inflate_core::serde_rec::same
//   
//   
//   SUMMARY:
//    ** 1 of 141 failed (2 unreachable)
//   Failed Checks: "OBL:serde.every_decoder_field_is_serialized_none_skipped [C19]"
//    File: "miniz_oxide/src/inflate/core.rs", line 4572, in inflate::core::verif_inflate_core::k_serde_visits_every_decoder_field
//   
//   VERIFICATION:- FAILED
//   Verification Time: 1.39642s
//   
//   Manual Harness Summary:
//   Verification failed for - inflate::core::verif_inflate_core::k_serde_visits_every_decoder_field
//   Complete - 0 successfully verified harnesses, 1 failures, 1 total.
