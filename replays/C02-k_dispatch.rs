// REPLAY for property C02, harness k_dispatch (unit K-dispatch, engine kani)
// Failed obligations:
//   OBL:dispatch.no_final_flush_block_while_output_is_pending [C02 C01]  at miniz_oxide/src/deflate/core.rs:3026:9 in function deflate::core::flush_block
// no-failing-input-found: the verifier reported the failed obligation without a concrete model.
// Verifier output (tail):
//   Check 1347: memcmp.pointer_dereference.4
//   	 - Status: SUCCESS
//   	 - Description: "dereference failure: dead object"
//   	 - Location: <builtin-library-memcmp>:27 in function memcmp
//   
//   Check 1348: memcmp.pointer_dereference.5
//   	 - Status: SUCCESS
//   	 - Description: "dereference failure: pointer outside object bounds"
//   	 - Location: <builtin-library-memcmp>:27 in function memcmp
//   
//   Check 1349: memcmp.pointer_dereference.6
//   	 - Status: SUCCESS
//   	 - Description: "dereference failure: invalid integer address"
//   	 - Location: <builtin-library-memcmp>:27 in function memcmp
//   
//   Check 1350: memcmp.pointer_dereference.7
//   	 - Status: SUCCESS
//   	 - Description: "dereference failure: pointer NULL"
//   	 - Location: <builtin-library-memcmp>:27 in function memcmp
//   
//   Check 1351: memcmp.pointer_dereference.8
//   	 - Status: SUCCESS
//   	 - Description: "dereference failure: pointer invalid"
//   	 - Location: <builtin-library-memcmp>:27 in function memcmp
//   
//   Check 1352: memcmp.pointer_dereference.9
//   	 - Status: SUCCESS
//   	 - Description: "dereference failure: deallocated dynamic object"
//   	 - Location: <builtin-library-memcmp>:27 in function memcmp
//   
//   Check 1353: memcmp.pointer_dereference.10
//   	 - Status: SUCCESS
//   	 - Description: "dereference failure: dead object"
//   	 - Location: <builtin-library-memcmp>:27 in function memcmp
//   
//   Check 1354: memcmp.pointer_dereference.11
//   	 - Status: SUCCESS
//   	 - Description: "dereference failure: pointer outside object bounds"
//   	 - Location: <builtin-library-memcmp>:27 in function memcmp
//   
//   Check 1355: memcmp.pointer_dereference.12
//   	 - Status: SUCCESS
//   	 - Description: "dereference failure: invalid integer address"
//   	 - Location: <builtin-library-memcmp>:27 in function memcmp
//   
//   
//   SUMMARY:
//    ** 1 of 1348 failed (8 unreachable)
//   
//    ** 7 of 7 cover properties satisfied
//   
//   Failed Checks: "OBL:dispatch.no_final_flush_block_while_output_is_pending [C02 C01]"
//    File: "miniz_oxide/src/deflate/core.rs", line 3026, in deflate::core::flush_block
//   
//   VERIFICATION:- FAILED
//   Verification Time: 77.38732s
//   
//   Manual Harness Summary:
//   Verification failed for - deflate::core::verif_deflate_core::k_dispatch
//   Complete - 0 successfully verified harnesses, 1 failures, 1 total.
