// REPLAY for property C10, harness k_enforce_max_code_size_kraft (unit K-huff, engine kani)
// Failed obligations:
//   OBL:huff.length_limited_code_set_is_complete_kraft_sum_1 [C10]  at miniz_oxide/src/deflate/core.rs:3846:9 in function deflate::core::verif_deflate_core::k_enforce_max_code_size_kraft
// no-failing-input-found: the verifier reported the failed obligation without a concrete model.
// Verifier output (tail):
//   Check 295: <core::ptr::NonNull<i32> as core::cmp::PartialEq>::eq.pointer_dereference.5
//   	 - Status: SUCCESS
//   	 - Description: "dereference failure: pointer outside object bounds"
//   	 - Location: ../../../../../home/runner/.rustup/toolchains/nightly-2026-08-21-x86_64-unknown-linux-gnu/lib/rustlib/src/rust/library/core/src/ptr/non_null.rs:1663:9 in function <core::ptr::NonNull<i32> as core::cmp::PartialEq>::eq
//   
//   Check 296: <core::ptr::NonNull<i32> as core::cmp::PartialEq>::eq.pointer_dereference.6
//   	 - Status: SUCCESS
//   	 - Description: "dereference failure: invalid integer address"
//   	 - Location: ../../../../../home/runner/.rustup/toolchains/nightly-2026-08-21-x86_64-unknown-linux-gnu/lib/rustlib/src/rust/library/core/src/ptr/non_null.rs:1663:9 in function <core::ptr::NonNull<i32> as core::cmp::PartialEq>::eq
//   
//   Check 297: <core::ptr::NonNull<i32> as core::cmp::PartialEq>::eq.pointer_dereference.7
//   	 - Status: SUCCESS
//   	 - Description: "dereference failure: pointer NULL"
//   	 - Location: ../../../../../home/runner/.rustup/toolchains/nightly-2026-08-21-x86_64-unknown-linux-gnu/lib/rustlib/src/rust/library/core/src/ptr/non_null.rs:1663:26 in function <core::ptr::NonNull<i32> as core::cmp::PartialEq>::eq
//   
//   Check 298: <core::ptr::NonNull<i32> as core::cmp::PartialEq>::eq.pointer_dereference.8
//   	 - Status: SUCCESS
//   	 - Description: "dereference failure: pointer invalid"
//   	 - Location: ../../../../../home/runner/.rustup/toolchains/nightly-2026-08-21-x86_64-unknown-linux-gnu/lib/rustlib/src/rust/library/core/src/ptr/non_null.rs:1663:26 in function <core::ptr::NonNull<i32> as core::cmp::PartialEq>::eq
//   
//   Check 299: <core::ptr::NonNull<i32> as core::cmp::PartialEq>::eq.pointer_dereference.9
//   	 - Status: SUCCESS
//   	 - Description: "dereference failure: deallocated dynamic object"
//   	 - Location: ../../../../../home/runner/.rustup/toolchains/nightly-2026-08-21-x86_64-unknown-linux-gnu/lib/rustlib/src/rust/library/core/src/ptr/non_null.rs:1663:26 in function <core::ptr::NonNull<i32> as core::cmp::PartialEq>::eq
//   
//   Check 300: <core::ptr::NonNull<i32> as core::cmp::PartialEq>::eq.pointer_dereference.10
//   	 - Status: SUCCESS
//   	 - Description: "dereference failure: dead object"
//   	 - Location: ../../../../../home/runner/.rustup/toolchains/nightly-2026-08-21-x86_64-unknown-linux-gnu/lib/rustlib/src/rust/library/core/src/ptr/non_null.rs:1663:26 in function <core::ptr::NonNull<i32> as core::cmp::PartialEq>::eq
//   
//   Check 301: <core::ptr::NonNull<i32> as core::cmp::PartialEq>::eq.pointer_dereference.11
//   	 - Status: SUCCESS
//   	 - Description: "dereference failure: pointer outside object bounds"
//   	 - Location: ../../../../../home/runner/.rustup/toolchains/nightly-2026-08-21-x86_64-unknown-linux-gnu/lib/rustlib/src/rust/library/core/src/ptr/non_null.rs:1663:26 in function <core::ptr::NonNull<i32> as core::cmp::PartialEq>::eq
//   
//   Check 302: <core::ptr::NonNull<i32> as core::cmp::PartialEq>::eq.pointer_dereference.12
//   	 - Status: SUCCESS
//   	 - Description: "dereference failure: invalid integer address"
//   	 - Location: ../../../../../home/runner/.rustup/toolchains/nightly-2026-08-21-x86_64-unknown-linux-gnu/lib/rustlib/src/rust/library/core/src/ptr/non_null.rs:1663:26 in function <core::ptr::NonNull<i32> as core::cmp::PartialEq>::eq
//   
//   Check 303: deflate::core::HuffmanOxide::enforce_max_code_size.unwind.1
//   	 - Status: SUCCESS
//   	 - Description: "unwinding assertion loop 1"
//   	 - Location: miniz_oxide/src/deflate/core.rs:1062:9 in function deflate::core::HuffmanOxide::enforce_max_code_size
//   
//   
//   SUMMARY:
//    ** 1 of 302 failed (10 unreachable)
//   
//    ** 1 of 1 cover properties satisfied
//   
//   Failed Checks: "OBL:huff.length_limited_code_set_is_complete_kraft_sum_1 [C10]"
//    File: "miniz_oxide/src/deflate/core.rs", line 3846, in deflate::core::verif_deflate_core::k_enforce_max_code_size_kraft
//   
//   VERIFICATION:- FAILED
//   Verification Time: 23.90702s
//   
//   Manual Harness Summary:
//   Verification failed for - deflate::core::verif_deflate_core::k_enforce_max_code_size_kraft
//   Complete - 0 successfully verified harnesses, 1 failures, 1 total.
