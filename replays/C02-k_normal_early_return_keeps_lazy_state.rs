// REPLAY for property C02, harness k_normal_early_return_keeps_lazy_state (unit K-normal-early, engine kani)
// Failed obligations:
//   OBL:normalearly.saved_literal_is_the_skipped_byte [C02 C01]  at miniz_oxide/src/deflate/core.rs:4022:13 in function deflate::core::verif_deflate_core::k_normal_early_return_keeps_lazy_state
// no-failing-input-found: the verifier reported the failed obligation without a concrete model.
// Verifier output (tail):
//   Check 1540: __rust_realloc.precondition_instance.2
//   	 - Status: SUCCESS
//   	 - Description: "memcpy source region readable"
//   	 - Location: ../../../../../root/.kani/kani-0.68.0/library/kani/kani_lib.c:114 in function __rust_realloc
//   
//   Check 1541: __rust_realloc.precondition_instance.3
//   	 - Status: SUCCESS
//   	 - Description: "memcpy destination region writeable"
//   	 - Location: ../../../../../root/.kani/kani-0.68.0/library/kani/kani_lib.c:114 in function __rust_realloc
//   
//   Check 1542: __rust_realloc.precondition_instance.4
//   	 - Status: SUCCESS
//   	 - Description: "free argument must be NULL or valid pointer"
//   	 - Location: ../../../../../root/.kani/kani-0.68.0/library/kani/kani_lib.c:115 in function __rust_realloc
//   
//   Check 1543: __rust_realloc.precondition_instance.5
//   	 - Status: SUCCESS
//   	 - Description: "free argument must be dynamic object"
//   	 - Location: ../../../../../root/.kani/kani-0.68.0/library/kani/kani_lib.c:115 in function __rust_realloc
//   
//   Check 1544: __rust_realloc.precondition_instance.6
//   	 - Status: SUCCESS
//   	 - Description: "free argument has offset zero"
//   	 - Location: ../../../../../root/.kani/kani-0.68.0/library/kani/kani_lib.c:115 in function __rust_realloc
//   
//   Check 1545: __rust_realloc.precondition_instance.7
//   	 - Status: SUCCESS
//   	 - Description: "double free"
//   	 - Location: ../../../../../root/.kani/kani-0.68.0/library/kani/kani_lib.c:115 in function __rust_realloc
//   
//   Check 1546: __rust_realloc.precondition_instance.8
//   	 - Status: SUCCESS
//   	 - Description: "free called for new[] object"
//   	 - Location: ../../../../../root/.kani/kani-0.68.0/library/kani/kani_lib.c:115 in function __rust_realloc
//   
//   Check 1547: __rust_realloc.precondition_instance.9
//   	 - Status: SUCCESS
//   	 - Description: "free called for stack-allocated object"
//   	 - Location: ../../../../../root/.kani/kani-0.68.0/library/kani/kani_lib.c:115 in function __rust_realloc
//   
//   Check 1548: calloc.pointer_dereference.1
//   	 - Status: SUCCESS
//   	 - Description: "dereference failure: dead object"
//   	 - Location: <builtin-library-calloc>:14 in function calloc
//   
//   
//   SUMMARY:
//    ** 1 of 1546 failed (34 unreachable)
//   
//    ** 2 of 2 cover properties satisfied
//   
//   Failed Checks: "OBL:normalearly.saved_literal_is_the_skipped_byte [C02 C01]"
//    File: "miniz_oxide/src/deflate/core.rs", line 4022, in deflate::core::verif_deflate_core::k_normal_early_return_keeps_lazy_state
//   
//   VERIFICATION:- FAILED
//   Verification Time: 94.219505s
//   
//   Manual Harness Summary:
//   Verification failed for - deflate::core::verif_deflate_core::k_normal_early_return_keeps_lazy_state
//   Complete - 0 successfully verified harnesses, 1 failures, 1 total.
