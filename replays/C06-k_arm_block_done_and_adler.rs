// REPLAY for property C06, harness k_arm_block_done_and_adler (unit K-arms, engine kani)
// Failed obligations:
//   OBL:arms.end_of_stream_returns_whole_unread_bytes_to_input [C06]  at miniz_oxide/src/inflate/core.rs:3833:17 in function inflate::core::verif_inflate_core::k_arm_block_done_and_adler
// no-failing-input-found: the verifier reported the failed obligation without a concrete model.
// Verifier output (tail):
//   	 - Description: "dereference failure: pointer outside object bounds"
//   	 - Location: ../../../../../home/runner/.rustup/toolchains/nightly-2026-08-21-x86_64-unknown-linux-gnu/lib/rustlib/src/rust/library/core/src/cmp.rs:2192:50 in function core::cmp::impls::<impl core::cmp::PartialOrd for usize>::lt
//   
//   Check 511: core::cmp::impls::<impl core::cmp::PartialOrd for usize>::lt.pointer_dereference.6
//   	 - Status: SUCCESS
//   	 - Description: "dereference failure: invalid integer address"
//   	 - Location: ../../../../../home/runner/.rustup/toolchains/nightly-2026-08-21-x86_64-unknown-linux-gnu/lib/rustlib/src/rust/library/core/src/cmp.rs:2192:50 in function core::cmp::impls::<impl core::cmp::PartialOrd for usize>::lt
//   
//   Check 512: core::cmp::impls::<impl core::cmp::PartialOrd for usize>::lt.pointer_dereference.7
//   	 - Status: SUCCESS
//   	 - Description: "dereference failure: pointer NULL"
//   	 - Location: ../../../../../home/runner/.rustup/toolchains/nightly-2026-08-21-x86_64-unknown-linux-gnu/lib/rustlib/src/rust/library/core/src/cmp.rs:2192:59 in function core::cmp::impls::<impl core::cmp::PartialOrd for usize>::lt
//   
//   Check 513: core::cmp::impls::<impl core::cmp::PartialOrd for usize>::lt.pointer_dereference.8
//   	 - Status: SUCCESS
//   	 - Description: "dereference failure: pointer invalid"
//   	 - Location: ../../../../../home/runner/.rustup/toolchains/nightly-2026-08-21-x86_64-unknown-linux-gnu/lib/rustlib/src/rust/library/core/src/cmp.rs:2192:59 in function core::cmp::impls::<impl core::cmp::PartialOrd for usize>::lt
//   
//   Check 514: core::cmp::impls::<impl core::cmp::PartialOrd for usize>::lt.pointer_dereference.9
//   	 - Status: SUCCESS
//   	 - Description: "dereference failure: deallocated dynamic object"
//   	 - Location: ../../../../../home/runner/.rustup/toolchains/nightly-2026-08-21-x86_64-unknown-linux-gnu/lib/rustlib/src/rust/library/core/src/cmp.rs:2192:59 in function core::cmp::impls::<impl core::cmp::PartialOrd for usize>::lt
//   
//   Check 515: core::cmp::impls::<impl core::cmp::PartialOrd for usize>::lt.pointer_dereference.10
//   	 - Status: SUCCESS
//   	 - Description: "dereference failure: dead object"
//   	 - Location: ../../../../../home/runner/.rustup/toolchains/nightly-2026-08-21-x86_64-unknown-linux-gnu/lib/rustlib/src/rust/library/core/src/cmp.rs:2192:59 in function core::cmp::impls::<impl core::cmp::PartialOrd for usize>::lt
//   
//   Check 516: core::cmp::impls::<impl core::cmp::PartialOrd for usize>::lt.pointer_dereference.11
//   	 - Status: SUCCESS
//   	 - Description: "dereference failure: pointer outside object bounds"
//   	 - Location: ../../../../../home/runner/.rustup/toolchains/nightly-2026-08-21-x86_64-unknown-linux-gnu/lib/rustlib/src/rust/library/core/src/cmp.rs:2192:59 in function core::cmp::impls::<impl core::cmp::PartialOrd for usize>::lt
//   
//   Check 517: core::cmp::impls::<impl core::cmp::PartialOrd for usize>::lt.pointer_dereference.12
//   	 - Status: SUCCESS
//   	 - Description: "dereference failure: invalid integer address"
//   	 - Location: ../../../../../home/runner/.rustup/toolchains/nightly-2026-08-21-x86_64-unknown-linux-gnu/lib/rustlib/src/rust/library/core/src/cmp.rs:2192:59 in function core::cmp::impls::<impl core::cmp::PartialOrd for usize>::lt
//   
//   Check 518: inflate::core::read_bits::<{closure@miniz_oxide/src/inflate/core.rs:793:44: 793:50}>.unwind.0
//   	 - Status: SUCCESS
//   	 - Description: "unwinding assertion loop 0"
//   	 - Location: miniz_oxide/src/inflate/core.rs:768:5 in function inflate::core::read_bits::<{closure@miniz_oxide/src/inflate/core.rs:793:44: 793:50}>
//   
//   Check 519: inflate::core::read_bits::<{closure@miniz_oxide/src/inflate/core.rs:3002:67: 3002:76}>.unwind.0
//   	 - Status: SUCCESS
//   	 - Description: "unwinding assertion loop 0"
//   	 - Location: miniz_oxide/src/inflate/core.rs:768:5 in function inflate::core::read_bits::<{closure@miniz_oxide/src/inflate/core.rs:3002:67: 3002:76}>
//   
//   
//   SUMMARY:
//    ** 1 of 519 failed (9 unreachable)
//   Failed Checks: "OBL:arms.end_of_stream_returns_whole_unread_bytes_to_input [C06]"
//    File: "miniz_oxide/src/inflate/core.rs", line 3833, in inflate::core::verif_inflate_core::k_arm_block_done_and_adler
//   
//   VERIFICATION:- FAILED
//   Verification Time: 45.006405s
//   
//   Manual Harness Summary:
//   Verification failed for - inflate::core::verif_inflate_core::k_arm_block_done_and_adler
//   Complete - 0 successfully verified harnesses, 1 failures, 1 total.
