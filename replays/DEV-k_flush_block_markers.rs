// REPLAY for property DEV, harness k_flush_block_markers (unit K-flushmark, engine kani)
// Failed obligations:
//   OBL:flushmark.nosync_and_none_emit_nothing_but_the_header [C12]  at miniz_oxide/src/deflate/core.rs:3468:13 in function deflate::core::verif_deflate_core::flush_block_markers_body
// no-failing-input-found: the verifier reported the failed obligation without a concrete model.
// Verifier output (tail):
//   Check 3711: __rust_realloc.precondition_instance.3
//   	 - Status: SUCCESS
//   	 - Description: "memcpy destination region writeable"
//   	 - Location: ../../../../../root/.kani/kani-0.68.0/library/kani/kani_lib.c:114 in function __rust_realloc
//   
//   Check 3712: __rust_realloc.precondition_instance.4
//   	 - Status: SUCCESS
//   	 - Description: "free argument must be NULL or valid pointer"
//   	 - Location: ../../../../../root/.kani/kani-0.68.0/library/kani/kani_lib.c:115 in function __rust_realloc
//   
//   Check 3713: __rust_realloc.precondition_instance.5
//   	 - Status: SUCCESS
//   	 - Description: "free argument must be dynamic object"
//   	 - Location: ../../../../../root/.kani/kani-0.68.0/library/kani/kani_lib.c:115 in function __rust_realloc
//   
//   Check 3714: __rust_realloc.precondition_instance.6
//   	 - Status: SUCCESS
//   	 - Description: "free argument has offset zero"
//   	 - Location: ../../../../../root/.kani/kani-0.68.0/library/kani/kani_lib.c:115 in function __rust_realloc
//   
//   Check 3715: __rust_realloc.precondition_instance.7
//   	 - Status: SUCCESS
//   	 - Description: "double free"
//   	 - Location: ../../../../../root/.kani/kani-0.68.0/library/kani/kani_lib.c:115 in function __rust_realloc
//   
//   Check 3716: __rust_realloc.precondition_instance.8
//   	 - Status: SUCCESS
//   	 - Description: "free called for new[] object"
//   	 - Location: ../../../../../root/.kani/kani-0.68.0/library/kani/kani_lib.c:115 in function __rust_realloc
//   
//   Check 3717: __rust_realloc.precondition_instance.9
//   	 - Status: SUCCESS
//   	 - Description: "free called for stack-allocated object"
//   	 - Location: ../../../../../root/.kani/kani-0.68.0/library/kani/kani_lib.c:115 in function __rust_realloc
//   
//   Check 3718: calloc.pointer_dereference.1
//   	 - Status: SUCCESS
//   	 - Description: "dereference failure: dead object"
//   	 - Location: <builtin-library-calloc>:14 in function calloc
//   
//   Check 3719: deflate::core::HuffmanOxide::optimize_table.unwind.0
//   	 - Status: SUCCESS
//   	 - Description: "unwinding assertion loop 0"
//   	 - Location: miniz_oxide/src/deflate/core.rs:1075:13 in function deflate::core::HuffmanOxide::optimize_table
//   
//   
//   SUMMARY:
//    ** 1 of 3717 failed (273 unreachable)
//   
//    ** 2 of 2 cover properties satisfied
//   
//   Failed Checks: "OBL:flushmark.nosync_and_none_emit_nothing_but_the_header [C12]"
//    File: "miniz_oxide/src/deflate/core.rs", line 3468, in deflate::core::verif_deflate_core::flush_block_markers_body
//   
//   VERIFICATION:- FAILED
//   Verification Time: 70.7986s
//   
//   Manual Harness Summary:
//   Verification failed for - deflate::core::verif_deflate_core::k_flush_block_markers
//   Complete - 0 successfully verified harnesses, 1 failures, 1 total.
