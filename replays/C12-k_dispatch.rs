// REPLAY for property C12, harness k_dispatch (unit K-dispatch, engine kani)
// Failed obligations:
//   OBL:dispatch.full_flush_dict_size_zero [C12]  at miniz_oxide/src/deflate/core.rs:3207:13 in function deflate::core::verif_deflate_core::k_dispatch
//   OBL:dispatch.full_flush_clears_hash_chains [C12]  at miniz_oxide/src/deflate/core.rs:3208:13 in function deflate::core::verif_deflate_core::k_dispatch
// no-failing-input-found: the verifier reported the failed obligation without a concrete model.
// Verifier output (tail):
//   	 - Description: "dereference failure: dead object"
//   	 - Location: <builtin-library-memcmp>:27 in function memcmp
//   
//   Check 1354: memcmp.pointer_dereference.5
//   	 - Status: SUCCESS
//   	 - Description: "dereference failure: pointer outside object bounds"
//   	 - Location: <builtin-library-memcmp>:27 in function memcmp
//   
//   Check 1355: memcmp.pointer_dereference.6
//   	 - Status: SUCCESS
//   	 - Description: "dereference failure: invalid integer address"
//   	 - Location: <builtin-library-memcmp>:27 in function memcmp
//   
//   Check 1356: memcmp.pointer_dereference.7
//   	 - Status: SUCCESS
//   	 - Description: "dereference failure: pointer NULL"
//   	 - Location: <builtin-library-memcmp>:27 in function memcmp
//   
//   Check 1357: memcmp.pointer_dereference.8
//   	 - Status: SUCCESS
//   	 - Description: "dereference failure: pointer invalid"
//   	 - Location: <builtin-library-memcmp>:27 in function memcmp
//   
//   Check 1358: memcmp.pointer_dereference.9
//   	 - Status: SUCCESS
//   	 - Description: "dereference failure: deallocated dynamic object"
//   	 - Location: <builtin-library-memcmp>:27 in function memcmp
//   
//   Check 1359: memcmp.pointer_dereference.10
//   	 - Status: SUCCESS
//   	 - Description: "dereference failure: dead object"
//   	 - Location: <builtin-library-memcmp>:27 in function memcmp
//   
//   Check 1360: memcmp.pointer_dereference.11
//   	 - Status: SUCCESS
//   	 - Description: "dereference failure: pointer outside object bounds"
//   	 - Location: <builtin-library-memcmp>:27 in function memcmp
//   
//   Check 1361: memcmp.pointer_dereference.12
//   	 - Status: SUCCESS
//   	 - Description: "dereference failure: invalid integer address"
//   	 - Location: <builtin-library-memcmp>:27 in function memcmp
//   
//   
//   SUMMARY:
//    ** 2 of 1354 failed (8 unreachable)
//   
//    ** 7 of 7 cover properties satisfied
//   
//   Failed Checks: "OBL:dispatch.full_flush_dict_size_zero [C12]"
//    File: "miniz_oxide/src/deflate/core.rs", line 3207, in deflate::core::verif_deflate_core::k_dispatch
//   Failed Checks: "OBL:dispatch.full_flush_clears_hash_chains [C12]"
//    File: "miniz_oxide/src/deflate/core.rs", line 3208, in deflate::core::verif_deflate_core::k_dispatch
//   
//   VERIFICATION:- FAILED
//   Verification Time: 83.926186s
//   
//   Manual Harness Summary:
//   Verification failed for - deflate::core::verif_deflate_core::k_dispatch
//   Complete - 0 successfully verified harnesses, 1 failures, 1 total.
