// REPLAY for property C10, harness k_probes_from_flags (unit K-def-flags, engine kani)
// Failed obligations:
//   OBL:probes.formula [C10]  at miniz_oxide/src/deflate/core.rs:2920:9 in function deflate::core::verif_deflate_core::k_probes_from_flags
// Counterexample from the verifier (Kani concrete playback). Replay against the real code with:
//   /verif/bin/vcheck --replay /verif/replays/C10-k_probes_from_flags.rs
//@HARNESS core k_probes_from_flags
/// Test generated for harness `deflate::core::verif_deflate_core::k_probes_from_flags` 
///
/// Check for `assertion`: ""OBL:probes.formula [C10]""

#[test]
fn kani_concrete_playback_k_probes_from_flags_15830278990641443946() {
    let concrete_vals: Vec<Vec<u8>> = vec![
        // 0
        vec![0, 0, 0, 0],
    ];
    kani::concrete_playback_run(concrete_vals, k_probes_from_flags);
}

