// REPLAY for property C18, harness k_arm_start_and_zlib_header (unit K-arms, engine kani)
// Failed obligations:
//   OBL:arms.registers_stay_well_formed [C05]  at miniz_oxide/src/inflate/core.rs:3447:9 in function inflate::core::verif_inflate_core::arm_generic_post
// no-failing-input-found: the verifier reported the failed obligation without a concrete model.
// Verifier output (tail):
//   	 - Description: "dereference failure: deallocated dynamic object"
//   	 - Location: ../../../../../home/runner/.rustup/toolchains/nightly-2026-08-21-x86_64-unknown-linux-gnu/lib/rustlib/src/rust/library/core/src/cmp.rs:2192:50 in function core::cmp::impls::<impl core::cmp::PartialOrd for usize>::lt
//   
//   Check 245: core::cmp::impls::<impl core::cmp::PartialOrd for usize>::lt.pointer_dereference.4
//   	 - Status: SUCCESS
//   	 - Description: "dereference failure: dead object"
//   	 - Location: ../../../../../home/runner/.rustup/toolchains/nightly-2026-08-21-x86_64-unknown-linux-gnu/lib/rustlib/src/rust/library/core/src/cmp.rs:2192:50 in function core::cmp::impls::<impl core::cmp::PartialOrd for usize>::lt
//   
//   Check 246: core::cmp::impls::<impl core::cmp::PartialOrd for usize>::lt.pointer_dereference.5
//   	 - Status: SUCCESS
//   	 - Description: "dereference failure: pointer outside object bounds"
//   	 - Location: ../../../../../home/runner/.rustup/toolchains/nightly-2026-08-21-x86_64-unknown-linux-gnu/lib/rustlib/src/rust/library/core/src/cmp.rs:2192:50 in function core::cmp::impls::<impl core::cmp::PartialOrd for usize>::lt
//   
//   Check 247: core::cmp::impls::<impl core::cmp::PartialOrd for usize>::lt.pointer_dereference.6
//   	 - Status: SUCCESS
//   	 - Description: "dereference failure: invalid integer address"
//   	 - Location: ../../../../../home/runner/.rustup/toolchains/nightly-2026-08-21-x86_64-unknown-linux-gnu/lib/rustlib/src/rust/library/core/src/cmp.rs:2192:50 in function core::cmp::impls::<impl core::cmp::PartialOrd for usize>::lt
//   
//   Check 248: core::cmp::impls::<impl core::cmp::PartialOrd for usize>::lt.pointer_dereference.7
//   	 - Status: SUCCESS
//   	 - Description: "dereference failure: pointer NULL"
//   	 - Location: ../../../../../home/runner/.rustup/toolchains/nightly-2026-08-21-x86_64-unknown-linux-gnu/lib/rustlib/src/rust/library/core/src/cmp.rs:2192:59 in function core::cmp::impls::<impl core::cmp::PartialOrd for usize>::lt
//   
//   Check 249: core::cmp::impls::<impl core::cmp::PartialOrd for usize>::lt.pointer_dereference.8
//   	 - Status: SUCCESS
//   	 - Description: "dereference failure: pointer invalid"
//   	 - Location: ../../../../../home/runner/.rustup/toolchains/nightly-2026-08-21-x86_64-unknown-linux-gnu/lib/rustlib/src/rust/library/core/src/cmp.rs:2192:59 in function core::cmp::impls::<impl core::cmp::PartialOrd for usize>::lt
//   
//   Check 250: core::cmp::impls::<impl core::cmp::PartialOrd for usize>::lt.pointer_dereference.9
//   	 - Status: SUCCESS
//   	 - Description: "dereference failure: deallocated dynamic object"
//   	 - Location: ../../../../../home/runner/.rustup/toolchains/nightly-2026-08-21-x86_64-unknown-linux-gnu/lib/rustlib/src/rust/library/core/src/cmp.rs:2192:59 in function core::cmp::impls::<impl core::cmp::PartialOrd for usize>::lt
//   
//   Check 251: core::cmp::impls::<impl core::cmp::PartialOrd for usize>::lt.pointer_dereference.10
//   	 - Status: SUCCESS
//   	 - Description: "dereference failure: dead object"
//   	 - Location: ../../../../../home/runner/.rustup/toolchains/nightly-2026-08-21-x86_64-unknown-linux-gnu/lib/rustlib/src/rust/library/core/src/cmp.rs:2192:59 in function core::cmp::impls::<impl core::cmp::PartialOrd for usize>::lt
//   
//   Check 252: core::cmp::impls::<impl core::cmp::PartialOrd for usize>::lt.pointer_dereference.11
//   	 - Status: SUCCESS
//   	 - Description: "dereference failure: pointer outside object bounds"
//   	 - Location: ../../../../../home/runner/.rustup/toolchains/nightly-2026-08-21-x86_64-unknown-linux-gnu/lib/rustlib/src/rust/library/core/src/cmp.rs:2192:59 in function core::cmp::impls::<impl core::cmp::PartialOrd for usize>::lt
//   
//   Check 253: core::cmp::impls::<impl core::cmp::PartialOrd for usize>::lt.pointer_dereference.12
//   	 - Status: SUCCESS
//   	 - Description: "dereference failure: invalid integer address"
//   	 - Location: ../../../../../home/runner/.rustup/toolchains/nightly-2026-08-21-x86_64-unknown-linux-gnu/lib/rustlib/src/rust/library/core/src/cmp.rs:2192:59 in function core::cmp::impls::<impl core::cmp::PartialOrd for usize>::lt
//   
//   
//   SUMMARY:
//    ** 1 of 253 failed (2 unreachable)
//   Failed Checks: "OBL:arms.registers_stay_well_formed [C05]"
//    File: "miniz_oxide/src/inflate/core.rs", line 3447, in inflate::core::verif_inflate_core::arm_generic_post
//   
//   VERIFICATION:- FAILED
//   Verification Time: 8.771839s
//   
//   Manual Harness Summary:
//   Verification failed for - inflate::core::verif_inflate_core::k_arm_start_and_zlib_header
//   Complete - 0 successfully verified harnesses, 1 failures, 1 total.
