// REPLAY for property DEV, harness k_validate_zlib_header (unit K-inf-leaf, engine kani)
// Failed obligations:
//   OBL:zhdr.accepted_only_if_valid_and_window_fits [C04 C09]  at miniz_oxide/src/inflate/core.rs:3229:46 in function inflate::core::verif_inflate_core::k_validate_zlib_header
// Counterexample from the verifier (Kani concrete playback). Replay against the real code with:
//   /verif/bin/vcheck --replay /verif/replays/DEV-k_validate_zlib_header.rs
//@HARNESS core k_validate_zlib_header
/// Test generated for harness `inflate::core::verif_inflate_core::k_validate_zlib_header` 
///
/// Check for `assertion`: ""OBL:zhdr.accepted_only_if_valid_and_window_fits [C04 C09]""

#[test]
fn kani_concrete_playback_k_validate_zlib_header_8954785281767236306() {
    let concrete_vals: Vec<Vec<u8>> = vec![
        // 64
        vec![64, 0, 0, 0],
        // 3
        vec![3, 0, 0, 0],
        // 4294967291
        vec![251, 255, 255, 255],
        // 9223372036854775807ul
        vec![255, 255, 255, 255, 255, 255, 255, 127],
    ];
    kani::concrete_playback_run(concrete_vals, k_validate_zlib_header);
}

/// Test generated for harness `inflate::core::verif_inflate_core::k_validate_zlib_header` 
///
/// Check for `cover`: "COV:zhdr.some_accepted"

#[test]
fn kani_concrete_playback_k_validate_zlib_header_105339111533888556() {
    let concrete_vals: Vec<Vec<u8>> = vec![
        // 72
        vec![72, 0, 0, 0],
        // 13
        vec![13, 0, 0, 0],
        // 0
        vec![0, 0, 0, 0],
        // 9223372036854775808ul
        vec![0, 0, 0, 0, 0, 0, 0, 128],
    ];
    kani::concrete_playback_run(concrete_vals, k_validate_zlib_header);
}

/// Test generated for harness `inflate::core::verif_inflate_core::k_validate_zlib_header` 
///
/// Check for `cover`: "COV:zhdr.ring_too_small"

#[test]
fn kani_concrete_playback_k_validate_zlib_header_10065204472076852520() {
    let concrete_vals: Vec<Vec<u8>> = vec![
        // 72
        vec![72, 0, 0, 0],
        // 13
        vec![13, 0, 0, 0],
        // 0
        vec![0, 0, 0, 0],
        // 0ul
        vec![0, 0, 0, 0, 0, 0, 0, 0],
    ];
    kani::concrete_playback_run(concrete_vals, k_validate_zlib_header);
}

