// REPLAY for property C09, harness k_with_params_flags (unit K-def-flags, engine kani)
// Failed obligations:
//   OBL:with_params.window_bits_clamped [C11 C09]  at miniz_oxide/src/deflate/core.rs:2926:9 in function deflate::core::verif_deflate_core::k_with_params_flags
// no-failing-input-found: the verifier reported the failed obligation without a concrete model.
// Verifier output (tail):
//   Check 617: __rust_realloc.precondition_instance.2
//   	 - Status: SUCCESS
//   	 - Description: "memcpy source region readable"
//   	 - Location: ../../../../../root/.kani/kani-0.68.0/library/kani/kani_lib.c:114 in function __rust_realloc
//   
//   Check 618: __rust_realloc.precondition_instance.3
//   	 - Status: SUCCESS
//   	 - Description: "memcpy destination region writeable"
//   	 - Location: ../../../../../root/.kani/kani-0.68.0/library/kani/kani_lib.c:114 in function __rust_realloc
//   
//   Check 619: __rust_realloc.precondition_instance.4
//   	 - Status: SUCCESS
//   	 - Description: "free argument must be NULL or valid pointer"
//   	 - Location: ../../../../../root/.kani/kani-0.68.0/library/kani/kani_lib.c:115 in function __rust_realloc
//   
//   Check 620: __rust_realloc.precondition_instance.5
//   	 - Status: SUCCESS
//   	 - Description: "free argument must be dynamic object"
//   	 - Location: ../../../../../root/.kani/kani-0.68.0/library/kani/kani_lib.c:115 in function __rust_realloc
//   
//   Check 621: __rust_realloc.precondition_instance.6
//   	 - Status: SUCCESS
//   	 - Description: "free argument has offset zero"
//   	 - Location: ../../../../../root/.kani/kani-0.68.0/library/kani/kani_lib.c:115 in function __rust_realloc
//   
//   Check 622: __rust_realloc.precondition_instance.7
//   	 - Status: SUCCESS
//   	 - Description: "double free"
//   	 - Location: ../../../../../root/.kani/kani-0.68.0/library/kani/kani_lib.c:115 in function __rust_realloc
//   
//   Check 623: __rust_realloc.precondition_instance.8
//   	 - Status: SUCCESS
//   	 - Description: "free called for new[] object"
//   	 - Location: ../../../../../root/.kani/kani-0.68.0/library/kani/kani_lib.c:115 in function __rust_realloc
//   
//   Check 624: __rust_realloc.precondition_instance.9
//   	 - Status: SUCCESS
//   	 - Description: "free called for stack-allocated object"
//   	 - Location: ../../../../../root/.kani/kani-0.68.0/library/kani/kani_lib.c:115 in function __rust_realloc
//   
//   Check 625: calloc.pointer_dereference.1
//   	 - Status: SUCCESS
//   	 - Description: "dereference failure: dead object"
//   	 - Location: <builtin-library-calloc>:14 in function calloc
//   
//   
//   SUMMARY:
//    ** 1 of 623 failed (8 unreachable)
//   
//    ** 1 of 2 cover properties satisfied
//   
//   Failed Checks: "OBL:with_params.window_bits_clamped [C11 C09]"
//    File: "miniz_oxide/src/deflate/core.rs", line 2926, in deflate::core::verif_deflate_core::k_with_params_flags
//   
//   VERIFICATION:- FAILED
//   Verification Time: 13.46626s
//   
//   Manual Harness Summary:
//   Verification failed for - deflate::core::verif_deflate_core::k_with_params_flags
//   Complete - 0 successfully verified harnesses, 1 failures, 1 total.
