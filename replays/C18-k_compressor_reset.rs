// REPLAY for property C18, harness k_compressor_reset (unit K-reset, engine kani)
// Failed obligations:
//   OBL:reset.compressor_lazy_match_and_block_index_cleared [C18 C02]  at miniz_oxide/src/deflate/core.rs:3799:9 in function deflate::core::verif_deflate_core::k_compressor_reset
// no-failing-input-found: the verifier reported the failed obligation without a concrete model.
// Verifier output (tail):
//   	 - Description: "memcpy src/dst overlap"
//   	 - Location: ../../../../../root/.kani/kani-0.68.0/library/kani/kani_lib.c:114 in function __rust_realloc
//   
//   Check 1016: __rust_realloc.precondition_instance.2
//   	 - Status: SUCCESS
//   	 - Description: "memcpy source region readable"
//   	 - Location: ../../../../../root/.kani/kani-0.68.0/library/kani/kani_lib.c:114 in function __rust_realloc
//   
//   Check 1017: __rust_realloc.precondition_instance.3
//   	 - Status: SUCCESS
//   	 - Description: "memcpy destination region writeable"
//   	 - Location: ../../../../../root/.kani/kani-0.68.0/library/kani/kani_lib.c:114 in function __rust_realloc
//   
//   Check 1018: __rust_realloc.precondition_instance.4
//   	 - Status: SUCCESS
//   	 - Description: "free argument must be NULL or valid pointer"
//   	 - Location: ../../../../../root/.kani/kani-0.68.0/library/kani/kani_lib.c:115 in function __rust_realloc
//   
//   Check 1019: __rust_realloc.precondition_instance.5
//   	 - Status: SUCCESS
//   	 - Description: "free argument must be dynamic object"
//   	 - Location: ../../../../../root/.kani/kani-0.68.0/library/kani/kani_lib.c:115 in function __rust_realloc
//   
//   Check 1020: __rust_realloc.precondition_instance.6
//   	 - Status: SUCCESS
//   	 - Description: "free argument has offset zero"
//   	 - Location: ../../../../../root/.kani/kani-0.68.0/library/kani/kani_lib.c:115 in function __rust_realloc
//   
//   Check 1021: __rust_realloc.precondition_instance.7
//   	 - Status: SUCCESS
//   	 - Description: "double free"
//   	 - Location: ../../../../../root/.kani/kani-0.68.0/library/kani/kani_lib.c:115 in function __rust_realloc
//   
//   Check 1022: __rust_realloc.precondition_instance.8
//   	 - Status: SUCCESS
//   	 - Description: "free called for new[] object"
//   	 - Location: ../../../../../root/.kani/kani-0.68.0/library/kani/kani_lib.c:115 in function __rust_realloc
//   
//   Check 1023: __rust_realloc.precondition_instance.9
//   	 - Status: SUCCESS
//   	 - Description: "free called for stack-allocated object"
//   	 - Location: ../../../../../root/.kani/kani-0.68.0/library/kani/kani_lib.c:115 in function __rust_realloc
//   
//   Check 1024: calloc.pointer_dereference.1
//   	 - Status: SUCCESS
//   	 - Description: "dereference failure: dead object"
//   	 - Location: <builtin-library-calloc>:14 in function calloc
//   
//   
//   SUMMARY:
//    ** 1 of 1024 failed (8 unreachable)
//   Failed Checks: "OBL:reset.compressor_lazy_match_and_block_index_cleared [C18 C02]"
//    File: "miniz_oxide/src/deflate/core.rs", line 3799, in deflate::core::verif_deflate_core::k_compressor_reset
//   
//   VERIFICATION:- FAILED
//   Verification Time: 131.80397s
//   
//   Manual Harness Summary:
//   Verification failed for - deflate::core::verif_deflate_core::k_compressor_reset
//   Complete - 0 successfully verified harnesses, 1 failures, 1 total.
