// REPLAY for property C03, harness k_decompress_fast_bounded_ring512 (unit K-arms, engine kani)
// Failed obligations:
//   OBL:fast.valid_distances_up_to_the_window_size_are_accepted [C03]  at miniz_oxide/src/inflate/core.rs:4144:21 in function inflate::core::verif_inflate_core::decompress_fast_body::<520>
// no-failing-input-found: the verifier reported the failed obligation without a concrete model.
// Verifier output (tail):
//   Check 350: <inflate::core::State as core::cmp::PartialEq>::eq.pointer_dereference.6
//   	 - Status: SUCCESS
//   	 - Description: "dereference failure: invalid integer address"
//   	 - Location: miniz_oxide/src/inflate/core.rs:433:23 in function <inflate::core::State as core::cmp::PartialEq>::eq
//   
//   Check 351: <inflate::core::State as core::cmp::PartialEq>::eq.pointer_dereference.7
//   	 - Status: SUCCESS
//   	 - Description: "dereference failure: pointer NULL"
//   	 - Location: miniz_oxide/src/inflate/core.rs:433:23 in function <inflate::core::State as core::cmp::PartialEq>::eq
//   
//   Check 352: <inflate::core::State as core::cmp::PartialEq>::eq.pointer_dereference.8
//   	 - Status: SUCCESS
//   	 - Description: "dereference failure: pointer invalid"
//   	 - Location: miniz_oxide/src/inflate/core.rs:433:23 in function <inflate::core::State as core::cmp::PartialEq>::eq
//   
//   Check 353: <inflate::core::State as core::cmp::PartialEq>::eq.pointer_dereference.9
//   	 - Status: SUCCESS
//   	 - Description: "dereference failure: deallocated dynamic object"
//   	 - Location: miniz_oxide/src/inflate/core.rs:433:23 in function <inflate::core::State as core::cmp::PartialEq>::eq
//   
//   Check 354: <inflate::core::State as core::cmp::PartialEq>::eq.pointer_dereference.10
//   	 - Status: SUCCESS
//   	 - Description: "dereference failure: dead object"
//   	 - Location: miniz_oxide/src/inflate/core.rs:433:23 in function <inflate::core::State as core::cmp::PartialEq>::eq
//   
//   Check 355: <inflate::core::State as core::cmp::PartialEq>::eq.pointer_dereference.11
//   	 - Status: SUCCESS
//   	 - Description: "dereference failure: pointer outside object bounds"
//   	 - Location: miniz_oxide/src/inflate/core.rs:433:23 in function <inflate::core::State as core::cmp::PartialEq>::eq
//   
//   Check 356: <inflate::core::State as core::cmp::PartialEq>::eq.pointer_dereference.12
//   	 - Status: SUCCESS
//   	 - Description: "dereference failure: invalid integer address"
//   	 - Location: miniz_oxide/src/inflate/core.rs:433:23 in function <inflate::core::State as core::cmp::PartialEq>::eq
//   
//   Check 357: inflate::core::decompress_fast.unwind.0
//   	 - Status: SUCCESS
//   	 - Description: "unwinding assertion loop 0"
//   	 - Location: miniz_oxide/src/inflate/core.rs:1236:9 in function inflate::core::decompress_fast
//   
//   Check 358: inflate::core::decompress_fast.unwind.1
//   	 - Status: SUCCESS
//   	 - Description: "unwinding assertion loop 1"
//   	 - Location: miniz_oxide/src/inflate/core.rs:1236:9 in function inflate::core::decompress_fast
//   
//   
//   SUMMARY:
//    ** 1 of 355 failed (2 unreachable)
//   
//    ** 2 of 3 cover properties satisfied
//   
//   Failed Checks: "OBL:fast.valid_distances_up_to_the_window_size_are_accepted [C03]"
//    File: "miniz_oxide/src/inflate/core.rs", line 4144, in inflate::core::verif_inflate_core::decompress_fast_body::<520>
//   
//   VERIFICATION:- FAILED
//   Verification Time: 223.85304s
//   
//   Manual Harness Summary:
//   Verification failed for - inflate::core::verif_inflate_core::k_decompress_fast_bounded_ring512
//   Complete - 0 successfully verified harnesses, 1 failures, 1 total.
