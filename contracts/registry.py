"""Registry of verification units: which harness/Verus file proves what, at which strength, for which property.

strength:  U  = unbounded deductive proof (Verus)
           F  = complete over a finite domain (Kani; loop-free or constant-bounded loops, all inputs symbolic)
           B(...) = bounded stand-in, never counted as proved
tier:      quick | thorough  (thorough tier runs quick ones too)
"""

K = "kani"
V = "verus"


def H(name, unit, serves, strength="F", tier="quick", crate="core", fns=(), timeout=600, cost=10, args=(), note=""):
    # generous wall-clock limits (3x the value tuned on an idle 16-core machine, at least 30 min): a timeout is reported as
    # undecided (exit 2), never as a violation, but on the unchanged tree it would still make the check look broken
    return dict(engine=K, name=name, unit=unit, serves=list(serves), strength=strength, tier=tier, crate=crate,
                fns=list(fns), timeout=max(3 * timeout, 1800), cost=cost, args=list(args), note=note)


def VU(name, serves, fns, tier="quick", timeout=300, note="", args=()):
    return dict(engine=V, name=name, unit=name, serves=list(serves), strength="U", tier=tier, fns=list(fns),
                timeout=max(3 * timeout, 900), note=note, args=list(args))


HARNESSES = [
    # ---- K-def-flags ----
    H("k_flags_from_zip_params", "K-def-flags", ["C01", "C09", "C10", "C11"], fns=["create_comp_flags_from_zip_params"]),
    H("k_limit_level_by_window_bits", "K-def-flags", ["C10", "C11"], fns=["limit_level_by_window_bits"]),
    H("k_probes_from_flags", "K-def-flags", ["C10"], fns=["probes_from_flags"]),
    H("k_with_params_flags", "K-def-flags", ["C01", "C09", "C10", "C11"],
      fns=["CompressorOxide::with_params", "ParamsOxide::new", "DictOxide::new", "change_window_bits_from_format"], cost=20),
    H("k_set_format_and_level", "K-def-flags", ["C01", "C09", "C10", "C11"], fns=["CompressorOxide::set_format_and_level", "CompressorOxide::set_compression_level_raw", "ParamsOxide::update_flags", "DictOxide::update_flags", "window_bits_from_flags", "CompressorOxide::data_format"], cost=30),
    # ---- K-zhdr (compressor side of the zlib header) ----
    H("k_add_fcheck", "K-zhdr", ["C09"], fns=["add_fcheck"]),
    H("k_header_from_flags", "K-zhdr", ["C09", "C11"], fns=["header_from_flags", "header_from_level", "zlib_level_from_flags", "add_fcheck"]),
    H("k_zlib_level_from_flags", "K-zhdr", ["C09"], fns=["zlib_level_from_flags"]),
    # ---- K-tables / K-inf-leaf / K-prologue (decoder) ----
    H("k_inf_tables", "K-tables", ["C03", "C04", "C05", "C10"],
      fns=["LENGTH_BASE", "LENGTH_EXTRA", "DIST_BASE", "num_extra_bits_for_distance_code", "HUFFMAN_LENGTH_ORDER", "MIN_TABLE_SIZES"]),
    H("k_start_static_table", "K-tables", ["C03"], fns=["start_static_table"], cost=20),
    H("k_undo_bytes", "K-inf-leaf", ["C06", "C07", "C19"], fns=["undo_bytes"]),
    H("k_end_of_input", "K-inf-leaf", ["C04", "C13"], fns=["end_of_input"]),
    H("k_validate_zlib_header", "K-inf-leaf", ["C03", "C04", "C09"], fns=["validate_zlib_header"]),
    H("k_prologue_bad_geometry", "K-prologue", ["C05", "C08"], fns=["decompress_with_limit (prologue)"], cost=30,
      strength="B(out<=16,in<=4 bytes; complete in every register, table entry, flag and position)"),
    H("k_prologue_failure_absorbing_a", "K-prologue", ["C04", "C05", "C08", "C09", "C13"], fns=["decompress_with_limit (prologue, failure exit, epilogue)"], cost=50,
      strength="B(out<=16,in<=4 bytes; complete in every register, table entry, flag and position)"),
    H("k_prologue_failure_absorbing_b", "K-prologue", ["C04", "C05", "C08", "C09", "C13"], fns=["decompress_with_limit (prologue, failure exit, epilogue)"], cost=50,
      strength="B(out<=16,in<=4 bytes; complete in every register, table entry, flag and position)"),
    H("k_prologue_done_forever", "K-prologue", ["C06", "C08", "C09", "C13", "C16"], fns=["decompress_with_limit (DoneForever exit, epilogue checksum verdict)"], cost=30,
      strength="B(out<=16,in<=4 bytes; complete in every register, table entry, flag and position)"),
    # ---- K-arms (state-machine arms, mechanically extracted) ----
    *[H(n, "K-arms", sv, cost=60, timeout=900, fns=f,
        strength="B(input<=8, output<=32 bytes; complete in the whole decoder object, registers, flags, positions, budget)", note=nt)
      for (n, sv, f, nt) in (
        ("k_arm_raw_header", ["C03", "C04", "C05", "C06", "C07", "C08", "C12", "C13", "C19"], ["arm RawHeader", "read_bits", "read_byte"], ""),
        ("k_arm_raw_memcpy", ["C03", "C04", "C05", "C07", "C08", "C13"], ["arm RawMemcpy1", "arm RawMemcpy2", "OutputBuffer::write_slice", "InputWrapper::advance"], ""),
        ("k_arm_raw_first_byte", ["C03", "C04", "C05", "C07", "C08", "C13"], ["arm RawReadFirstByte", "arm RawStoreFirstByte", "OutputBuffer::write_byte"], ""),
        ("k_arm_write_len_bytes_to_end", ["C03", "C04", "C05", "C06", "C07", "C08", "C13"], ["arm WriteLenBytesToEnd"], "transfer/apply_match replaced by contract models asserting their preconditions (real ones: V-transfer)"),
        ("k_arm_huff_decode_outer_loop2", ["C03", "C04", "C05", "C07", "C08", "C13"], ["arm HuffDecodeOuterLoop2"], "transfer/apply_match replaced by contract models asserting their preconditions (real ones: V-transfer)"),
        ("k_arm_symbols", ["C03", "C04", "C05", "C06", "C07", "C08", "C13"], ["arm HuffDecodeOuterLoop1", "arm WriteSymbol", "arm ReadExtraBitsLitlen", "arm ReadExtraBitsDistance", "read_bits"], ""),
        ("k_arm_block_header", ["C03", "C04", "C05", "C06", "C07", "C08", "C13", "C18"], ["arm ReadBlockHeader", "arm ReadTableSizes", "start_static_table", "read_bits"], "init_tree replaced by a contract model (no tractable proof of init_tree itself, see DESIGN.md)"),
        ("k_arm_start_and_zlib_header", ["C04", "C05", "C06", "C08", "C09", "C13", "C16", "C18"], ["arm Start", "arm ReadZlibCmf", "arm ReadZlibFlg", "validate_zlib_header", "read_byte"], ""),
        ("k_arm_block_done_and_adler", ["C03", "C05", "C06", "C07", "C08", "C09", "C13"], ["arm BlockDone", "arm ReadAdler32", "pad_to_bytes", "undo_bytes", "read_bits"], ""),
      )],
    *[H(n, "K-arms", sv, cost=70, timeout=900, fns=f, strength=stg, note=nt)
      for (n, sv, f, stg, nt) in (
        ("k_arm_decode_litlen", ["C03", "C04", "C05", "C07", "C08"], ["arm DecodeLitlen", "fill_bit_buffer", "OutputBuffer::write_byte"],
         "B(input<=16, output<=300 bytes; complete in decoder object, registers, flags, positions, budget, callee results)",
         "decode_huffman_code, HuffmanTable::lookup, decompress_fast replaced by contract models"),
        ("k_arm_decode_distance", ["C03", "C04", "C05", "C07", "C08"], ["arm DecodeDistance"],
         "B(input<=8, output<=32 bytes; complete otherwise)", "decode_huffman_code replaced by a contract model"),
        ("k_arm_code_lengths_hufflen", ["C03", "C04", "C05", "C07"], ["arm ReadHufflenTableCodeSize", "read_bits"],
         "B(input<=8, output<=32 bytes; complete otherwise)", "init_tree replaced by a contract model"),
        ("k_decompress_fast_bounded_ring512", ["C03", "C04", "C05", "C07", "C08", "C19"], ["decompress_fast", "fill_bit_buffer", "InputWrapper::read_u32_le"],
         "B(at most 5 symbols before end-of-block, input<=18, output<=520 bytes incl. a 512-byte ring)", "HuffmanTable::lookup, apply_match, transfer replaced by contract models"),
        ("k_decompress_fast_bounded", ["C03", "C04", "C05", "C07", "C08", "C19"], ["decompress_fast", "fill_bit_buffer", "InputWrapper::read_u32_le"],
         "B(at most 5 symbols before end-of-block, input<=18, output<=320 bytes)", "HuffmanTable::lookup, apply_match, transfer replaced by contract models"),
      )],
    # ---- K-capi ----
    *[H(n, "K-capi", sv, crate="capi", cost=60, timeout=900, fns=f,
        strength="B(caller buffers <= 8 bytes; complete in every scalar parameter, stream field and callee result)",
        note="inflate/deflate replaced by recording contract models (own contracts: K-inflate/K-deflate); std::panic::catch_unwind replaced by Ok(f()) (Kani ICE on the intrinsic; exact under panic=abort)")
      for (n, sv, f) in (
        ("k_capi_mz_inflate", ["C17", "C06", "C11", "C13", "C14", "C16"], ["mz_inflate", "mz_inflateInit2", "mz_inflateEnd", "mz_inflate_oxide", "mz_inflate_init2_oxide", "StreamOxide::try_new", "StreamOxide::into_mz_stream", "MZFlush::new", "as_c_return_code"]),
        ("k_capi_custom_allocators_rejected", ["C17"], ["StreamOxide::try_new"]),
        ("k_capi_deflate_reset_fields", ["C16", "C17", "C18"], ["mz_deflate_reset_oxide", "Compressor::reset"]),
        ("k_capi_tinfl_mem_to_heap", ["C17"], ["tinfl_decompress_mem_to_heap", "miniz_def_alloc_func", "miniz_def_realloc_func", "miniz_def_free_func"]),
        ("k_capi_tinfl_decompress", ["C17", "C06"], ["tinfl_decompress"]),
        ("k_capi_tinfl_mem_to_mem", ["C17"], ["tinfl_decompress_mem_to_mem"]),
        ("k_capi_checksum_wrappers", ["C16", "C17"], ["mz_adler32", "mz_crc32"]),
        ("k_capi_tdefl_init", ["C17"], ["tdefl_init", "Compressor::flags"]),
        ("k_capi_tdefl_compress", ["C17"], ["tdefl_compress", "tdefl_flush -> TDEFLFlush", "TDEFLStatus -> tdefl_status"]),
        ("k_capi_output_buffer_putter_fixed", ["C17"], ["output_buffer_putter (fixed-capacity sink of tdefl_compress_mem_to_mem)"]),
        ("k_capi_tdefl_mem_to_mem", ["C17"], ["tdefl_compress_mem_to_mem", "output_buffer_putter"]),
        ("k_capi_tdefl_mem_to_heap", ["C17"], ["tdefl_compress_mem_to_heap", "output_buffer_putter (growing sink)", "miniz_def_realloc_func"]),
      )],
    H("k_decode_huffman_code_overflow_tree", "K-slowdecode", ["C03", "C04", "C05", "C06", "C07"], cost=60, timeout=900,
      fns=["decode_huffman_code", "HuffmanTable::fast_lookup", "HuffmanTable::tree_lookup", "read_byte", "read_u16_le", "end_of_input"],
      strength="B(one well-formed table instance with 1..12-bit codes; <= 40 buffered bits + <= 3 input bytes; complete over every bit stream, split and flag word)",
      note="the table instance is what init_tree builds for lengths 1..11,12,12 (derived by hand from init_tree's algorithm; init_tree itself is behind an assumed contract)"),
    H("k_epilogue_starved_call_keeps_its_byte", "K-prologue", ["C04", "C06", "C07", "C08", "C13"], cost=40, timeout=900,
      fns=["decompress_with_limit (prologue, one starved arm evaluation, epilogue: no rewind on NeedsMoreInput, registers saved)"],
      strength="B(1 input byte, out<=16; state ReadExtraBitsDistance needing 13 bits with 3 buffered; complete in every other register, table entry, flag and position)"),
    H("k_init_tree_clears_tables", "K-inittree", ["C03", "C04", "C18"], cost=30, timeout=900, fns=["init_tree (clearing prologue, count/verdict section, table order)"],
      strength="B(all-unused code sets of sizes 4/2/19; complete in the starting table)",
      note="<[i16]>::fill replaced by its std contract model (writes index 0; call count and slice lengths recorded)"),
    H("k_stored_block_end_to_end_raw", "K-stored-e2e", ["C01", "C03", "C06", "C08", "C13"], cost=70, timeout=1200,
      fns=["decompress", "decompress_with_limit (whole automaton on a final stored block)"],
      strength="B(4 concrete stream shapes: final stored block of 0/1/2 bytes, 0-2 trailing bytes, flat/ring, padding 00000/11111; data and trailing bytes symbolic)"),
    H("k_stored_block_end_to_end_zlib", "K-stored-e2e", ["C03", "C04", "C06", "C08", "C09", "C13"], cost=70, timeout=1200,
      fns=["decompress", "decompress_with_limit (whole automaton: zlib header, stored block, trailer, checksum verdict)"],
      strength="B(4 concrete stream shapes: zlib header 78 9C + final stored block of 0/1/2 bytes + trailer + 0-2 trailing bytes; data, trailer, trailing bytes symbolic)",
      note="update_adler32 replaced by a contract model (identity on empty data, otherwise a mix of the bytes)"),
    H("k_apply_match_small_buffer", "K-applymatch", ["C03", "C05", "C07", "C08"], fns=["apply_match", "transfer"], cost=70, timeout=2400, tier="thorough",
      strength="B(buffer <= 16 bytes; complete in contents, positions, distance, length, flat/ring mode)"),
    H("k_apply_match_tiny_buffer", "K-applymatch", ["C03", "C05", "C07", "C08"], fns=["apply_match", "transfer"], cost=70, timeout=900,
      strength="B(buffer <= 8 bytes; complete in contents, positions, distance, length, flat/ring mode)"),
    # ---- K-vec / K-cvec ----
    H("k_decompress_to_vec_limit", "K-vec", ["C01", "C03", "C04", "C05", "C08"], fns=["decompress_to_vec_inner", "decompress_error"], cost=40,
      strength="B(input <= 3 bytes, limit <= 8 => <= 5 growth steps, unwinding assertion on; complete in engine results)",
      note="decompress replaced by contract model M-decompress"),
    H("k_decompress_slice_iter", "K-vec", ["C03", "C04", "C07", "C08", "C09", "C16"], fns=["decompress_slice_iter_to_slice"], cost=40, timeout=900,
      strength="B(6 input bytes cut into <= 3 slices, output 8 bytes; complete in cut points, slice count, format/checksum choice, engine results)",
      note="decompress replaced by contract model M-decompress (NeedsMoreInput only with the more-input flag, then all input consumed)"),
    H("k_compress_to_vec_growth", "K-cvec", ["C01", "C09", "C10"], fns=["compress_to_vec_inner"], cost=60,
      strength="B(input <= 4 bytes, <= 5 growth steps; complete in level, format, engine results)",
      note="compress replaced by contract model M-compress (Finish: Done, or Okay with the output buffer filled)"),
    # ---- K-inflate (streaming wrapper against the M-decompress contract model) ----
    H("k_inflate_protocol", "K-inflate", ["C04", "C05", "C06", "C07", "C09", "C13"], fns=["inflate", "inflate_loop", "push_dict_out", "InflateState::new"],
      cost=60, strength="B(in<=3,out<=3 bytes => loop<=8 iterations, unwinding assertion on; complete in wrapper state, flags, flush, engine results)",
      note="decompress replaced by contract model M-decompress (clauses: counts<=offered, starved statuses truthful, HasMoreOutput only when window full, no BadParam on valid geometry)"),
    H("k_push_dict_out", "K-inflate", ["C05", "C07", "C08", "C13"], fns=["push_dict_out"], cost=20, strength="B(out<=4 bytes; complete in ring state)"),
    # ---- K-deflate (streaming wrapper against the M-compress contract model) ----
    H("k_deflate_protocol", "K-deflate", ["C02", "C12", "C14"], fns=["deflate", "TDEFLFlush::from(MZFlush)"], cost=40,
      strength="B(in<=3,out<=3 bytes, loop unwinding assertion on; complete in wrapper state, flush, engine results)",
      note="compress replaced by contract model M-compress (proved by K-dispatch: counts<=offered, Done only after Finish, status latched; assumed: progress - Okay with output space and work left moved at least one byte)"),
    # ---- K-boundary (feature block-boundary) ----
    H("k_block_boundary_record", "K-boundary", ["C19", "C04"], fns=["DecompressorOxide::block_boundary_state", "DecompressorOxide::from_block_boundary_state"], args=["--features", "block-boundary"], cost=30),
    H("k_serde_visits_every_decoder_field", "K-serde", ["C19"], fns=["<DecompressorOxide as serde::Serialize>::serialize (derived)"], args=["--features", "serde"], cost=30,
      strength="F", note="a recording Serializer stands in for the data format; field values are not descended into; the Deserialize side is not exercised"),
    H("k_block_boundary_exit", "K-boundary", ["C19"], fns=["decompress_with_limit (BlockDone arm with stop flag, epilogue)"], args=["--features", "block-boundary"], cost=40,
      strength="B(out<=16,in<=4 bytes; complete in every register, table entry, flag and position)"),
    # ---- K-reset ----
    H("k_inflate_reset_policies", "K-reset", ["C18"], fns=["MinReset::reset", "ZeroReset::reset", "FullReset::reset", "InflateState::reset", "InflateState::reset_as", "DecompressorOxide::init"], cost=40),
    H("k_reset_format_selection", "K-reset", ["C09", "C13", "C16", "C18"], fns=["FullReset::reset", "InflateState::reset", "ZeroReset::reset", "MinReset::reset (format and scalars)"], cost=40),
    H("k_compressor_reset", "K-reset", ["C18", "C02", "C11", "C14", "C16"], fns=["CompressorOxide::reset", "ParamsOxide::reset", "DictOxide::reset", "HashBuffers::reset", "LZOxide::new", "HuffmanOxide::default"], cost=60,
      note="<[T]>::fill replaced by its std contract model (writes index 0; call count and slice lengths recorded): the window/next/hash fills are observed at index 0 plus (3 calls, total length) and extended to every element by the std contract"),
    # ---- K-lenDist ----
    H("k_lz_one_match_roundtrip", "K-lenDist", ["C01", "C02", "C10"], cost=40,
      fns=["record_match", "compress_lz_codes", "LZOxide::new", "LZOxide::write_code", "LZOxide::init_flag", "LZOxide::get_flag",
           "LZOxide::consume_flag", "LZOxide::plant_flag", "BitBuffer::put_fast", "BitBuffer::flush", "OutputBufferOxide::put_bits",
           "LEN_SYM", "LEN_EXTRA", "SMALL_DIST_SYM", "SMALL_DIST_EXTRA", "LARGE_DIST_SYM", "LARGE_DIST_EXTRA", "BITMASKS"]),
    H("k_lz_literals2_roundtrip", "K-lenDist", ["C01", "C02", "C10"], cost=30, fns=["record_literal", "compress_lz_codes"]),
    H("k_lz_literals4_roundtrip", "K-lenDist", ["C01", "C02", "C10"], cost=30, fns=["record_literal", "compress_lz_codes"]),
    # ---- K-flushmark ----
    *[H(n, "K-flushmark", ["C02", "C08", "C09", "C10", "C12"], cost=90, timeout=900,
        fns=["flush_block", "CallbackOut::new_output_buffer", "OutputBufferOxide::put_bits_no_flush",
             "OutputBufferOxide::pad_to_bytes", "OutputBufferOxide::save", "OutputBufferOxide::load", "OutputBufferOxide::is_byte_aligned",
             "HuffmanOxide::start_static_block", "HuffmanOxide::optimize_table(static)", "compress_block", "compress_lz_codes"],
        strength="F in configuration, flush mode, bit alignment, pending bits, adler, block index; block body empty",
        note="OutputBufferOxide::put_bits replaced by a small-buffer model (checked equal to the real put_bits by k_put_bits_model_equiv, and the real one proved in Verus V-def-bits); CallbackOxide::flush_output by a recording model (real one: K-flushout); <[u16]>::fill by its std contract model; in k_flush_block_finish_static compress_block by its empty-body contract model (ASSUMED: the harness for the real static-table build, k_compress_block_static_empty, did not finish in 50 min and is not registered)")
      for n in ("k_flush_block_markers", "k_flush_block_finish_static")],
] + [
    H(n, "K-flushmark", ["C01", "C02", "C08", "C10"], fns=["flush_block (stored-block body)", "OutputBufferOxide::write_bytes", "OutputBufferOxide::put_bits", "OutputBufferOxide::pad_to_bytes", "CallbackBuf::flush_output", "LZOxide::init_flag"], cost=60, timeout=900,
      strength=st, note="no function replaced; the window is laid out as the engines leave it (first 257 bytes mirrored behind the window end, mirror slot 32768+257 at its allocation value)")
    for n, st in (("k_flush_block_stored_body_wrap", "B(one concrete case: a 260-byte block starting 2 bytes before the window end, i.e. spilling exactly 258 bytes past it; fixed non-zero byte pattern; forced-raw Raw-format compressor, flush None)"),
                  ("k_flush_block_stored_body_short_spill", "B(one concrete case: a 33-byte block starting 7 bytes before the window end; fixed non-zero byte pattern; forced-raw Raw-format compressor, flush None)"))
] + [
    H("k_put_bits_model_equiv", "K-flushmark", ["C02", "C10", "C12"], fns=["OutputBufferOxide::put_bits"], cost=20),
    # ---- K-fasttail ----
    H("k_fast_tail", "K-fasttail", ["C01", "C02", "C12"], fns=["compress_fast (tail path: fewer than 4 bytes with a flush requested)"], cost=70, timeout=900,
      strength="B(1..3 bytes of work split between prior lookahead and new input in 4 concrete ways, window position 1000; complete in data, flags, window bits, flush mode, dictionary size)",
      note="flush_block replaced by a no-op model (not reached: the token buffer is far from full)"),
    H("k_fast_tail_window_wrap", "K-fasttail", ["C01", "C02", "C12"], fns=["compress_fast (input copy into the window: mirrored start, wrap at the window end; tail path)"], cost=70, timeout=900,
      strength="B(3 bytes at window index 5; 1+2 bytes straddling the window end; complete in data, flags, window bits, flush mode, dictionary size)",
      note="flush_block replaced by a no-op model (not reached: the token buffer is far from full)"),
    # ---- K-normal-early ----
    H("k_normal_early_return_keeps_lazy_state", "K-normal-early", ["C01", "C02", "C10"], fns=["compress_normal (first token decision and early return after flush_block)"], cost=80, timeout=900,
      strength="B(3 concrete input bytes at window position 40000, one token decision; complete in flags, window bits, dictionary size, matcher result, flush_block result)",
      note="find_match / record_match / record_literal / flush_block replaced by contract models"),
    H("k_normal_window_wrap_without_history", "K-normal-early", ["C01", "C02", "C12"], fns=["compress_normal (byte-at-a-time input copy without usable history, at the window end; first token)"], cost=80, timeout=900,
      strength="B(3 symbolic input bytes at window index 32767 with the history just cut; complete in input bytes, flags, window bits, matcher result)",
      note="find_match / record_match / record_literal / flush_block replaced by contract models"),
    H("k_fast_lookahead_overlap", "K-fastcap", ["C01", "C10"], fns=["compress_fast (history clamp to the window minus the lookahead before candidates are examined)"], cost=90, timeout=1200,
      strength="B(one candidate exactly 32767 bytes back, 4 input bytes; complete in format, level, strategy, window bits, dictionary size)",
      note="LZOxide::write_code, flush_block, copy_from_slice replaced by recording contract models; window re-allocated as Box::new arrays"),
    H("k_normal_rle_first_token", "K-normal-early", ["C01", "C02", "C10", "C12"], fns=["compress_normal (RLE branch: run detection against the previous byte, history guard)"], cost=80, timeout=900,
      strength="B(3 symbolic input bytes at window position 40000, one token decision; complete in input bytes, previous byte, flags with RLE set, window bits, dictionary size)",
      note="find_match / record_match / record_literal / flush_block replaced by contract models"),
    H("k_find_match_chain", "K-findmatch", ["C01", "C02", "C10", "C11"], fns=["DictOxide::find_match", "DictOxide::read_unaligned_u64", "read_u16_le"], cost=60, timeout=900,
      strength="B(one concrete window/hash-chain instance with three chain entries incl. a 65536-byte-old aliasing one; 8 concrete (incoming length, length limit) pairs; complete in probe budget, distance limit, incoming distance)"),
    *[H(n, "K-fastcap", ["C01", "C10", "C11"], fns=["compress_fast (trigram hash lookup, match verification, distance/window cap, token emission, early return)", "DictOxide::read_unaligned_u32", "DictOxide::read_unaligned_u64"], cost=90, timeout=1200,
        strength="B(one planted 4-byte repeat at distance %s, 4 input bytes; complete in format, level, strategy, window bits, dictionary size)" % dd,
        note="LZOxide::write_code, flush_block, copy_from_slice replaced by recording contract models; window re-allocated as Box::new arrays (same all-zero state) so CBMC folds reads")
      for (n, dd) in (("k_fast_cap_300", "300"), ("k_fast_cap_5000", "5000"))],
    H("k_normal_step_zeros", "K-normalstep", ["C01", "C02", "C10", "C11", "C12"], tier="thorough", cost=700, timeout=2400,
      fns=["compress_normal (whole loop on 2-3 bytes from a symbolic parser state: carried lazy match, lookahead, dictionary size, flush mode)"],
      strength="B(input 00 00 00 / 00 00 at window position 40000 over an all-zero window; complete in format, level, strategy, window bits, dictionary size, carried lazy match, flush mode, matcher results)",
      note="find_match / record_match / record_literal / flush_block replaced by contract models; ~11 min, 7.5 GB"),
    *[H(n, "K-stored-compress", ["C01", "C02", "C08", "C09", "C10", "C16"], tier="thorough", cost=650, timeout=2400,
        fns=["compress", "compress_inner", "compress_stored", "flush_block (stored path)", "flush_output_buffer", "CallbackOxide::flush_output", "OutputBufferOxide::put_bits", "zlib::header_from_flags"],
        strength="B(one fresh compressor, configuration %s, one Finish call; complete in the input bytes)" % cfg,
        note="update_adler32 replaced by a model (the checksum algorithm is not verified); window re-allocated as Box::new arrays (same all-zero state); ~10 min, 7 GB")
      for (n, cfg) in (("k_stored_compress_end_to_end_zlib3", "zlib/default/15 bits, 3 input bytes"), ("k_stored_compress_end_to_end_raw1", "raw/Huffman-only/12 bits, 1 input byte"),
                       ("k_stored_compress_end_to_end_zlib0", "zlib/fixed/9 bits, empty input"))],
    H("k_callback_sink_flush_output", "K-sink", ["C01", "C02", "C14"], fns=["CallbackOxide::flush_output", "CallbackFunc::flush_output", "CallbackOxide::new_callback_func", "CallbackOxide::update_size"], cost=40, timeout=900,
      strength="F (every produced length 0..=OUT_BUF_SIZE-16, status, pending counter, callback verdict)"),
    H("k_compress_to_output_protocol", "K-sink", ["C02", "C12", "C14"], fns=["compress_to_output", "compress_inner (callback sink)", "flush_output_buffer (callback sink)"], cost=60, timeout=900,
      strength="B(in<=4 bytes; complete in configuration, history, flush, engine results)",
      note="compress_stored/compress_fast/compress_normal/flush_block/update_adler32 replaced by the recording contract models of K-dispatch; <[u16]>::fill by its std contract model"),
    # ---- K-huff ----
    H("k_enforce_max_code_size_kraft", "K-huff", ["C10"], fns=["HuffmanOxide::enforce_max_code_size"], cost=50, timeout=900,
      strength="B(<= 9 codes, tree depths <= 9, limit 7; complete over every depth histogram of a full binary tree in that range)"),
    # ---- K-dispatch ----
    H("k_dispatch", "K-dispatch", ["C01", "C02", "C09", "C10", "C11", "C12", "C14", "C16"],
      fns=["compress", "compress_inner", "CallbackOxide::new_callback_buf"], cost=60, timeout=900,
      strength="B(in<=4,out<=8 bytes; complete in configuration, history, flush, engine results)",
      note="compress_stored/compress_fast/compress_normal/flush_block/flush_output_buffer/update_adler32 replaced by recording contract models; <[u16]>::fill by its std contract model"),

]

VERUS_UNITS = [
    VU("V-transfer", ["C03", "C05", "C07", "C08"], ["transfer"], args=["--rlimit", "300"], timeout=600),
    VU("V-outbuf", ["C05", "C08"], ["OutputBuffer::from_slice_pos_and_max", "OutputBuffer::bytes_left", "OutputBuffer::write_byte", "OutputBuffer::set_position",
                                    "OutputBuffer::write_slice", "InputWrapper::advance", "InputWrapper::bytes_left"]),
    VU("V-def-bits", ["C02", "C10", "C12"], ["OutputBufferOxide::put_bits", "OutputBufferOxide::pad_to_bytes", "OutputBufferOxide::put_bits_no_flush", "OutputBufferOxide::write_bytes",
                                             "OutputBufferOxide::save", "OutputBufferOxide::load", "OutputBufferOxide::is_byte_aligned", "BitBuffer::put_fast"]),
    VU("V-pushdict", ["C05", "C13"], ["push_dict_out"]),
    VU("V-def-lz", ["C02", "C10"], ["LZOxide::write_code", "LZOxide::plant_flag", "LZOxide::consume_flag", "LZOxide::get_flag", "LZOxide::init_flag", "record_literal", "record_match"]),
    VU("V-flushout", ["C02", "C14"], ["CallbackBuf::flush_output"]),
    VU("V-inf-leaf", ["C04", "C06", "C07", "C19"], ["undo_bytes", "num_extra_bits_for_distance_code"]),
]

# what each property cannot get from this family here (goes verbatim into the evidence)

TRUSTED_COMMON = [
    "Kani 0.68 / CBMC 6.11 / CaDiCaL and their models of the Rust allocator, memcpy/memset and core library",
    "rustc (Kani's pinned toolchain) compiles the snapshot the same way the test toolchain compiles /repo",
    "cfg evaluation fixed to x86_64, 64-bit BitBuffer, features with-alloc (core crate) / default (C shim)",
    "harness modules are appended to a per-run copy of the source file; no line of the real functions is altered",
]

MANIFEST_NOTES = (
    "Family: contract-based deductive verification of the real code. Every claimed property is decided by a named set of "
    "component contracts (see evidence coverage.samples); compositions that neither Kani nor Verus can reach here "
    "(whole decoder automaton runs, the three compressor loops) are listed under coverage.not_covered / assumptions in "
    "each evidence file and in DESIGN.md §4. Six genuine defects found by the checks were repaired in /repo with fix: "
    "commits and one (MinReset keeps the window) is recorded as a known finding (known_findings.txt, DESIGN.md §5). "
    "84 seeded property-breaking changes written by sub-agents that saw only the property text are kept under seeded/; "
    "all 84 are reported as VIOLATION by the quick-tier check of their property (seeded/MATRIX.md, DESIGN.md §9)."
)

COMPOSITION_GAP_DEC = ("composition of the decoder's state-machine arms over a whole run, termination of the automaton, and the unbounded "
                       "inner loops (DecodeLitlen / decompress_fast) are NOT proved: neither Verus (break-with-value, closures) nor Kani "
                       "(25 min without result on 3 symbolic input bytes) can take decompress_with_limit whole")
COMPOSITION_GAP_ENC = ("the three compressor loops (compress_normal / compress_fast / compress_stored) are under contract on bounded instances only "
                       "(K-fastcap, K-fasttail, K-findmatch, K-normal-early, K-normalstep, K-stored-compress); dynamic Huffman construction and block "
                       "cutting are NOT proved: that the emitted token sequence expands to the input for arbitrary input is assumed")

NOT_COVERED = {
    "C01": [COMPOSITION_GAP_ENC, COMPOSITION_GAP_DEC, "hence the round trip itself is not proved end to end; what is proved: every stored length/distance/literal re-decodes to itself through the real emission code against the RFC tables, level clamp, level 0 <=> stored route, fixed code == RFC"],
    "C02": [COMPOSITION_GAP_ENC, "callback (dyn FnMut) sink; decodability of the concatenated output (whole-history); the lazy-match hand-over is proved for one token decision at a concrete window position only (K-normal-early)"],
    "C03": [COMPOSITION_GAP_DEC, "Huffman table construction (init_tree) for symbolic code-length sets: no tractable formulation found (DESIGN.md §10)"],
    "C04": [COMPOSITION_GAP_DEC, "init_tree over-subscription/incompleteness verdict for symbolic length sets", "'whenever decoding reports completion the consumed bytes form a valid stream' as a whole-run statement"],
    "C05": [COMPOSITION_GAP_DEC, "termination (no ranking function proved)"],
    "C06": [COMPOSITION_GAP_DEC, "the cross-call fact that the end-of-stream rewind is never clamped (history invariant)"],
    "C07": ["the relational statement itself (two schedules give equal results) is not mechanised; proved are the single-run facts it follows from: starved readers leave the unread-bit view and live registers unchanged, wrapper hand-off bookkeeping", COMPOSITION_GAP_DEC],
    "C08": [COMPOSITION_GAP_DEC, "union of per-arm write frames over a run; decompress_fast's 259-byte guard"],
    "C09": ["Adler-32 algorithm itself beyond the bounded check (dependency adler2)", COMPOSITION_GAP_ENC, COMPOSITION_GAP_DEC],
    "C10": [COMPOSITION_GAP_ENC, "acceptance by an independent decoder end to end; dynamic-block header construction (start_dynamic_block, optimize_table dynamic) except enforce_max_code_size (K-huff, bounded); the compression-ratio clause (quantitative whole-run statement: not applicable to this family)"],
    "C11": ["the matchers are exercised on bounded instances only: compress_fast on one planted repeat at two distances (K-fastcap), find_match on one concrete chain (K-findmatch), compress_normal's call site for one token decision (K-normal-early) and a 2-3 byte run (K-normalstep); all complete in the configuration"],
    "C12": [COMPOSITION_GAP_ENC, "prefix decodability at a flush point (needs the missing composition)"],
    "C13": ["delivered bytes are a prefix of the true plaintext (needs the engine)", "termination of the engine; M-decompress clauses are assumptions wherever the decoder units do not prove them"],
    "C14": ["progress inside the engine (M-compress progress clause is assumed)"],
    "C17": ["mz_deflate / mz_deflateInit2 / mz_deflateReset extern wrappers (CBMC crashes on that harness), mz_compress2, mz_uncompress, the body of tdefl_compress_mem_to_output (behind a call-site contract) and the growing branch of output_buffer_putter beyond one realloc are not under contract", "buffers bounded to 8 bytes"],
    "C18": ["decoder fields other than state are not reset by init(); that they are dead at Start is shown arm by arm only for the registers (Start arm) and code_size_huffman (ReadTableSizes)", "MinReset: known finding D3", "'behaves exactly like a new object' follows from state equality + determinism of safe Rust (trusted)"],
    "C19": ["equality of behaviour after Clone (derived code) and the Deserialize side of serde; the Serialize side is checked to visit every decoder field (K-serde)", "the record's precondition num_bits < 8 rests on the assumed end-of-stream history invariant"],
    "C16": ["checksum algorithms live in dependencies (adler2, simd-adler32, crc32fast); only bounded lengths are checked; SIMD build not analysed"],
}

PROPERTY_META = {
    "C01": dict(text="component contracts the round trip depends on, each discharged for all inputs of its domain (all 256 lengths x 32768 distances x bit alignments through the real record_match/compress_lz_codes against RFC tables; level clamp over all u8 levels; routing); the composition through the compressor loops and decoder automaton is assumed and listed",
                note="Proof level applies to the listed component obligations only; see evidence coverage.not_covered."),
    "C02": dict(text="dispatch/prologue/epilogue of compress() for every configuration, history and flush (counts, pending-output bookkeeping, Finish sticky, final flush gating), flush_block marker emission with the carried partial byte, deflate() wrapper protocol; engines behind contract models",
                note="Engine loops are contract models (assumed)."),
    "C03": dict(text="decoder constants and fixed code equal the RFC for every index; zlib header acceptance exact; stored/dynamic/compressed-block arms and copy routines under contract where built",
                note="See not_covered: automaton composition and init_tree."),
    "C04": dict(text="rejection rules as exact per-function/per-arm contracts (zlib header iff-valid over all 65536 headers x flags x ring sizes; failure states absorbing; end_of_input truthful)", note=""),
    "C05": dict(text="inductive-invariant style: entry validation (BadParam without touching state), failure states absorbing, every harness is also a no-panic/no-overflow/in-bounds proof of the real code it executes (Kani checks all of those by default)", note=""),
    "C06": dict(text="undo_bytes contract, DoneForever consumes nothing more, wrapper consumed == sum of engine counts", note=""),
    "C07": dict(text="single-run facts that imply suspend/resume independence, per function; wrapper ring hand-off", note=""),
    "C08": dict(text="frame conditions (bytes outside the granted window unchanged) and truthful counts on every path that is under contract", note=""),
    "C09": dict(text="header_from_flags valid per RFC 1950 for all flag words x window bits; validate_zlib_header exact; header once at block 0; trailer = big-endian running Adler; Adler over exactly the consumed prefix; mismatch/ignore verdict table", note=""),
    "C10": dict(text="strategy/level -> flags table exact; routing (RLE/filter never on the fast path — this obligation found a real defect, fixed); block/flush markers and BFINAL exactly on Finish; every length/distance token encodes per RFC", note=""),
    "C11": dict(text="configuration lemma over all (format, level, strategy, window_bits): declared window == 2^max(w,8), w<12 => RLE/stored/no matching; routing proof; distance caps at the matcher call sites", note=""),
    "C12": dict(text="marker bytes per flush mode for all alignments/configurations, byte alignment, full flush clears hash chains and dictionary size, NoSync emits nothing", note=""),
    "C13": dict(text="the wrapper's whole decision table over fully symbolic wrapper state, flush, and engine results (M-decompress contract model)", note=""),
    "C14": dict(text="the wrapper's whole decision table over symbolic engine results (M-compress contract model) plus compress() prologue latching", note=""),
    "C16": dict(text="running-checksum plumbing (which bytes are fed, when) proved; the algorithms themselves bounded", note=""),
    "C15": dict(not_applicable=True, na_reason=(
        "a cost bound on whole compression runs (worst-case size of Huffman-coded and stored blocks emitted by flush_block / "
        "compress_lz_codes / start_dynamic_block versus mz_deflateBound's formula): none of these functions is within reach of "
        "Verus (iterator chains, closures) or Kani (symbolic-index writes into 64-85 KiB buffers exhaust memory), so no contract "
        "here can express or decide it; only the arithmetic of the formula itself could be proved, which decides nothing of the "
        "property (DESIGN.md §4 C15)")),
    "C17": dict(text="C shim inflate path (mz_inflate*, tinfl_*) and tdefl_* deflate path as function contracts over the real extern \"C\" functions with real pointers: exact accounting, declared ranges only, error codes for every misuse listed in the property", note=""),
    "C18": dict(text="field-by-field equality of a reset compressor / inflate wrapper with a fresh object from a symbolic pre-state; decoder register re-initialisation in the Start arm; one known finding (MinReset keeps the window)", note=""),
    "C19": dict(text="block-boundary record <-> live decoder registers, stop reported after every non-final block incl. empty stored blocks, resume at ReadBlockHeader, the fast loop hands end-of-block to BlockDone; derived Serialize visits every field; Clone equality is not a contract-level statement", note=""),
    "C20": dict(not_applicable=True, na_reason=(
        "facts about program text and the trait solver (#![forbid(unsafe_code)], no_std builds, auto traits): no "
        "pre/postcondition expresses them and neither Verus nor Kani decides them; the compiler itself would, which is a "
        "different technique (DESIGN.md §4 C20)")),
}
