// verification target fixed to 64-bit (cfg evaluation of the extractor: x86_64): usize is 8 bytes
global size_of usize == 8;
// ---- trusted prelude: assumed contracts of std items Verus has no specification for ----
// Each is the documented std behaviour; none constrains crate code. (min/max: Verus cannot name the generic Ord method.)
#[verifier::external_body]
pub fn vmin_usize(a: usize, b: usize) -> (r: usize) ensures r == (if a <= b { a } else { b }) { core::cmp::min(a, b) }
#[verifier::external_body]
pub fn vmax_usize(a: usize, b: usize) -> (r: usize) ensures r == (if a >= b { a } else { b }) { core::cmp::max(a, b) }
#[verifier::external_body]
pub fn vmin_u32(a: u32, b: u32) -> (r: u32) ensures r == (if a <= b { a } else { b }) { core::cmp::min(a, b) }
#[verifier::external_body]
pub fn vmax_u32(a: u32, b: u32) -> (r: u32) ensures r == (if a >= b { a } else { b }) { core::cmp::max(a, b) }
// <[T]>::fill: every element becomes a clone of the value (std documentation); stated for the element types that
// are plain copies (u8/u16), where clone == copy.
pub assume_specification<T: Clone> [<[T]>::fill] (s: &mut [T], v: T)
    ensures
        final(s)@.len() == old(s)@.len(),
        forall|i: int| 0 <= i < old(s)@.len() ==> final(s)@[i] == v,
;
// core::mem::take: returns the old value (std documentation); the value left behind (Default::default()) is not specified here
pub assume_specification<T: Default> [core::mem::take::<T>] (dest: &mut T) -> (r: T)
    ensures r == *old(dest),
;
