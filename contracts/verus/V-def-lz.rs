// V-def-lz: the compressor's token buffer (LZOxide), unbounded in buffer position.
//@extract const LZ_CODE_BUF_SIZE from miniz_oxide/src/deflate/buffer.rs
//@end

//@extract struct LZOxide from miniz_oxide/src/deflate/core.rs
//@end

// room for one more token: what compress_normal / compress_fast establish by flushing when
// code_position > LZ_CODE_BUF_SIZE - 8 (call-site fact, assumed here)
spec fn lz_inv(lz: &LZOxide) -> bool {
    lz.flag_position < lz.code_position && lz.code_position <= 65536 - 8 && 1 <= lz.num_flags_left <= 8
}

//@extract fn write_code in impl LZOxide from miniz_oxide/src/deflate/core.rs
//@  contract
        requires old(self).code_position < 65536,
        ensures
            final(self).codes@ == old(self).codes@.update(old(self).code_position as int, val),
            final(self).code_position == old(self).code_position + 1,
            final(self).flag_position == old(self).flag_position, final(self).total_bytes == old(self).total_bytes,
            final(self).num_flags_left == old(self).num_flags_left,
//@  before "self.codes[usize::from(self.code_position as u16)] = val;"
        let ghost cp: usize = self.code_position;
        assert(cp < 65536usize ==> (cp as u16) as usize == cp) by (bit_vector);
//@end

//@extract fn plant_flag in impl LZOxide from miniz_oxide/src/deflate/core.rs
//@  contract
        requires old(self).code_position < 65536,
        ensures
            final(self).flag_position == old(self).code_position, final(self).code_position == old(self).code_position + 1,
            final(self).codes@ == old(self).codes@, final(self).num_flags_left == old(self).num_flags_left, final(self).total_bytes == old(self).total_bytes,
//@end

//@extract fn consume_flag in impl LZOxide from miniz_oxide/src/deflate/core.rs
//@  contract
        requires 1 <= old(self).num_flags_left <= 8, old(self).code_position < 65536,
        ensures
            1 <= final(self).num_flags_left <= 8,
            old(self).num_flags_left > 1 ==> final(self).num_flags_left == old(self).num_flags_left - 1 && final(self).code_position == old(self).code_position && final(self).flag_position == old(self).flag_position,
            old(self).num_flags_left == 1 ==> final(self).num_flags_left == 8 && final(self).flag_position == old(self).code_position && final(self).code_position == old(self).code_position + 1,
            final(self).codes@ == old(self).codes@, final(self).total_bytes == old(self).total_bytes,
//@end
