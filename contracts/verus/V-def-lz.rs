// V-def-lz: the compressor's token buffer (LZOxide), unbounded in buffer position.
//@extract const LZ_CODE_BUF_SIZE from miniz_oxide/src/deflate/buffer.rs
//@end

//@extract struct LZOxide from miniz_oxide/src/deflate/core.rs
//@end

// room for one more token: what compress_normal / compress_fast establish by flushing when
// code_position > LZ_CODE_BUF_SIZE - 8 (call-site fact, assumed here)
spec fn lz_inv(lz: &LZOxide) -> bool {
    lz.flag_position < lz.code_position && lz.code_position <= 65536 - 8 && 1 <= lz.num_flags_left <= 8
}

//@extract fn write_code in impl LZOxide from miniz_oxide/src/deflate/core.rs
//@  contract
        requires old(self).code_position < 65536,
        ensures
            final(self).codes@ == old(self).codes@.update(old(self).code_position as int, val),
            final(self).code_position == old(self).code_position + 1,
            final(self).flag_position == old(self).flag_position, final(self).total_bytes == old(self).total_bytes,
            final(self).num_flags_left == old(self).num_flags_left,
//@  before "self.codes[usize::from(self.code_position as u16)] = val;"
        let ghost cp: usize = self.code_position;
        assert(cp < 65536usize ==> (cp as u16) as usize == cp) by (bit_vector);
//@end

//@extract fn plant_flag in impl LZOxide from miniz_oxide/src/deflate/core.rs
//@  contract
        requires old(self).code_position < 65536,
        ensures
            final(self).flag_position == old(self).code_position, final(self).code_position == old(self).code_position + 1,
            final(self).codes@ == old(self).codes@, final(self).num_flags_left == old(self).num_flags_left, final(self).total_bytes == old(self).total_bytes,
//@end

//@extract fn consume_flag in impl LZOxide from miniz_oxide/src/deflate/core.rs
//@  contract
        requires 1 <= old(self).num_flags_left <= 8, old(self).code_position < 65536,
        ensures
            1 <= final(self).num_flags_left <= 8,
            old(self).num_flags_left > 1 ==> final(self).num_flags_left == old(self).num_flags_left - 1 && final(self).code_position == old(self).code_position && final(self).flag_position == old(self).flag_position,
            old(self).num_flags_left == 1 ==> final(self).num_flags_left == 8 && final(self).flag_position == old(self).code_position && final(self).code_position == old(self).code_position + 1,
            final(self).codes@ == old(self).codes@, final(self).total_bytes == old(self).total_bytes,
//@end

// ---- the recorders: one token into the buffer + one/two histogram increments (what compress_lz_codes later reads back) ----
//@extract const MAX_HUFF_SYMBOLS from miniz_oxide/src/deflate/core.rs
//@end
//@extract const MAX_HUFF_TABLES from miniz_oxide/src/deflate/core.rs
//@end
//@extract const MIN_MATCH_LEN from miniz_oxide/src/deflate/core.rs
//@end
//@extract const LZ_DICT_SIZE from miniz_oxide/src/deflate/core.rs
//@end
//@extract const LEN_SYM_OFFSET from miniz_oxide/src/deflate/core.rs
//@end
//@extract struct HuffmanOxide from miniz_oxide/src/deflate/core.rs
//@end

//@extract fn get_flag in impl LZOxide from miniz_oxide/src/deflate/core.rs
//@  rename r
//@  contract
        requires old(self).flag_position < 65536,
        ensures
            *r == old(self).codes[old(self).flag_position as int],
            final(self).codes@ == old(self).codes@.update(old(self).flag_position as int, *final(r)),
            final(self).code_position == old(self).code_position, final(self).flag_position == old(self).flag_position,
            final(self).total_bytes == old(self).total_bytes, final(self).num_flags_left == old(self).num_flags_left,
//@  before "&mut self.codes[usize::from(self.flag_position as u16)]"
        let ghost fp: usize = self.flag_position;
        assert(fp < 65536usize ==> (fp as u16) as usize == fp) by (bit_vector);
//@end

//@extract fn init_flag in impl LZOxide from miniz_oxide/src/deflate/core.rs
//@  contract
        requires old(self).flag_position < 65536, old(self).code_position >= 1, 1 <= old(self).num_flags_left <= 8,
        ensures
            old(self).num_flags_left == 8 ==> final(self).code_position == old(self).code_position - 1
                && final(self).codes@ == old(self).codes@.update(old(self).flag_position as int, 0u8),
            old(self).num_flags_left < 8 ==> final(self).code_position == old(self).code_position
                && final(self).codes@ == old(self).codes@.update(old(self).flag_position as int,
                        old(self).codes[old(self).flag_position as int] >> (old(self).num_flags_left as u8)),
            final(self).flag_position == old(self).flag_position, final(self).total_bytes == old(self).total_bytes,
            final(self).num_flags_left == old(self).num_flags_left,
//@end

//@extract fn record_literal from miniz_oxide/src/deflate/core.rs
//@  contract
    requires
        lz_inv(old(lz)), old(lz).total_bytes < u32::MAX, old(h).count[0][lit as int] < u16::MAX,
    ensures
        // token bytes: the literal at the old write position, the flag byte shifted with a 0 (= literal) entering at the top
        final(lz).codes@ == old(lz).codes@.update(old(lz).code_position as int, lit)
                                .update(old(lz).flag_position as int, old(lz).codes[old(lz).flag_position as int] >> 1u8),
        final(lz).total_bytes == old(lz).total_bytes + 1,
        1 <= final(lz).num_flags_left <= 8,
        old(lz).num_flags_left > 1 ==> final(lz).num_flags_left == old(lz).num_flags_left - 1
            && final(lz).code_position == old(lz).code_position + 1 && final(lz).flag_position == old(lz).flag_position,
        old(lz).num_flags_left == 1 ==> final(lz).num_flags_left == 8
            && final(lz).flag_position == old(lz).code_position + 1 && final(lz).code_position == old(lz).code_position + 2,
        final(lz).flag_position < final(lz).code_position,
        // histogram: exactly the literal's own counter moves, by one; nothing else in the Huffman state changes
        final(h).count[0]@ == old(h).count[0]@.update(lit as int, (old(h).count[0][lit as int] + 1) as u16),
        final(h).count[1]@ == old(h).count[1]@, final(h).count[2]@ == old(h).count[2]@,
        final(h).codes == old(h).codes, final(h).code_sizes == old(h).code_sizes,
//@end

//@extract const LEN_SYM from miniz_oxide/src/deflate/core.rs
//@end
//@extract const SMALL_DIST_SYM from miniz_oxide/src/deflate/core.rs
//@end
//@extract const LARGE_DIST_SYM from miniz_oxide/src/deflate/core.rs
//@end

// the histogram slots a match touches, written with the same table look-ups compress_lz_codes uses when it emits the
// token (SMALL_DIST_SYM[d] for d < 512, LARGE_DIST_SYM[d >> 8] above; LEN_SYM[len-3] & 31 + 256): a recorder that
// counted any other slot would leave the emitted symbol without a code. (That these tables are the RFC 1951 code
// assignment is K-lenDist's obligation, not this one's.)
spec fn dist_slot(md: u32) -> int {
    if md < 512 { SMALL_DIST_SYM[md as int] as int } else { LARGE_DIST_SYM[(md as int) / 256] as int }
}
spec fn len_slot(ml: u8) -> int { ((LEN_SYM[ml as int] & 31u8) as int) + 256 }

//@extract fn record_match from miniz_oxide/src/deflate/core.rs
//@  contract
    requires
        lz_inv(old(lz)), 3 <= match_len <= 258, 1 <= match_dist <= 32768,
        old(lz).total_bytes as int + match_len as int <= u32::MAX,
        old(h).count[1][dist_slot((match_dist - 1) as u32)] < u16::MAX,
        old(h).count[0][len_slot((match_len - 3) as u8)] < u16::MAX,
    ensures
        // token bytes: len-3, low and high byte of dist-1 at the old write position; flag byte shifted with a 1 (= match) on top
        final(lz).codes@ == old(lz).codes@.update(old(lz).code_position as int, (match_len - 3) as u8)
                                .update(old(lz).code_position + 1, ((match_dist - 1) as u32 % 256) as u8)
                                .update(old(lz).code_position + 2, ((match_dist - 1) as u32 / 256) as u8)
                                .update(old(lz).flag_position as int, (old(lz).codes[old(lz).flag_position as int] >> 1u8) | 0x80u8),
        final(lz).total_bytes == old(lz).total_bytes + match_len,
        1 <= final(lz).num_flags_left <= 8,
        old(lz).num_flags_left > 1 ==> final(lz).num_flags_left == old(lz).num_flags_left - 1
            && final(lz).code_position == old(lz).code_position + 3 && final(lz).flag_position == old(lz).flag_position,
        old(lz).num_flags_left == 1 ==> final(lz).num_flags_left == 8
            && final(lz).flag_position == old(lz).code_position + 3 && final(lz).code_position == old(lz).code_position + 4,
        final(lz).flag_position < final(lz).code_position,
        // histogram: the distance slot and the length slot move by one each; nothing else in the Huffman state changes
        final(h).count[1]@ == old(h).count[1]@.update(dist_slot((match_dist - 1) as u32),
                                    (old(h).count[1][dist_slot((match_dist - 1) as u32)] + 1) as u16),
        final(h).count[0]@ == old(h).count[0]@.update(len_slot((match_len - 3) as u8),
                                    (old(h).count[0][len_slot((match_len - 3) as u8)] + 1) as u16),
        final(h).count[2]@ == old(h).count[2]@,
        final(h).codes == old(h).codes, final(h).code_sizes == old(h).code_sizes,
//@  before "lz.write_code(match_dist as u8);"
    let ghost md: u32 = match_dist;
    assert(md < 32768u32 ==> (md as u8) as u32 == md % 256u32 && ((md >> 8u32) as u8) as u32 == md / 256u32
        && ((md >> 8u32) & 127u32) == md / 256u32 && ((md >> 8u32) & 127u32) < 128u32) by (bit_vector);
//@  before "h.count[0][(LEN_SYM[match_len as usize] as usize & 31) + LEN_SYM_OFFSET] += 1;"
    let ghost ls: u8 = LEN_SYM[match_len as int];
    assert((ls as usize & 31usize) == (ls & 31u8) as usize && (ls as usize & 31usize) < 32usize) by (bit_vector);
//@end
