use core::{cmp, mem};
// V-pushdict: the ring hand-off of the streaming inflate wrapper (inflate::stream::push_dict_out), unbounded in the
// caller's output length. InflateState and push_dict_out are extracted verbatim; the types of the fields the function
// does not touch (DecompressorOxide, DataFormat, TINFLStatus) are opaque placeholders declared here.
pub struct DecompressorOxide { placeholder: u8 }
pub enum DataFormat { Zlib, ZLibIgnoreChecksum, Raw }
pub enum TINFLStatus { FailedCannotMakeProgress, BadParam, Adler32Mismatch, Failed, Done, NeedsMoreInput, HasMoreOutput }

//@extract const TINFL_LZ_DICT_SIZE from miniz_oxide/src/inflate/core.rs
//@end

//@extract struct InflateState from miniz_oxide/src/inflate/stream.rs
//@end

spec fn window_inv(s: &InflateState) -> bool {
    s.dict_ofs < 32768 && s.dict_avail <= 32768 && s.dict_ofs + s.dict_avail <= 32768
}

//@extract fn push_dict_out from miniz_oxide/src/inflate/stream.rs
//@  rename n
//@  contract
    requires
        window_inv(old(state)),
    ensures
        n == (if old(state).dict_avail <= old(next_out)@.len() { old(state).dict_avail } else { old(next_out)@.len() as usize }),
        final(state).dict_avail == old(state).dict_avail - n,
        final(state).dict_ofs == (old(state).dict_ofs + n) % 32768,
        window_inv(final(state)),
        final(state).dict@ == old(state).dict@,
//@  before "state.dict_ofs = (state.dict_ofs + (n)) & (TINFL_LZ_DICT_SIZE - 1);"
    let ghost t: usize = (state.dict_ofs + n) as usize;
    assert(t & 32767usize == t % 32768usize) by (bit_vector);
//@end
