use core::cmp;
// V-flushout: delivery of pending compressed output to the caller's buffer (CallbackBuf::flush_output), unbounded
// in the caller's buffer length and offsets. Structs are extracted verbatim; enum types of fields the function does
// not touch are opaque placeholders.
pub enum TDEFLFlush { None, Partial, Sync, Full, Finish, PartialOpt, SyncOpt, NoSync }
pub enum TDEFLStatus { BadParam, PutBufFailed, Okay, Done }

//@extract const LZ_CODE_BUF_SIZE from miniz_oxide/src/deflate/buffer.rs
//@end
//@extract const OUT_BUF_SIZE from miniz_oxide/src/deflate/buffer.rs
//@end
//@extract struct LocalBuf from miniz_oxide/src/deflate/buffer.rs
//@end
//@extract struct ParamsOxide from miniz_oxide/src/deflate/core.rs
//@end
//@extract struct SavedOutputBufferOxide from miniz_oxide/src/deflate/core.rs
//@end
//@extract struct CallbackBuf from miniz_oxide/src/deflate/core.rs
//@end

//@extract fn flush_output in impl CallbackBuf<'_> from miniz_oxide/src/deflate/core.rs
//@  rename res
//@  contract
        requires
            old(params).out_buf_ofs <= old(self).out_buf@.len(),
            saved_output.pos <= OUT_BUF_SIZE,
            old(self).out_buf@.len() <= 0x7FFF_FFFF_FFFF_FFFF,
            // direct mode is chosen by new_output_buffer only when the block fits the caller's buffer (call-site fact)
            !saved_output.local ==> saved_output.pos <= old(self).out_buf@.len() - old(params).out_buf_ofs,
        ensures
            final(self).out_buf@.len() == old(self).out_buf@.len(),
            final(params).out_buf_ofs <= final(self).out_buf@.len(),
            // local buffer: deliver min(produced, space) bytes in order, remember the rest as pending
            saved_output.local ==> ({
                let n = if saved_output.pos <= old(self).out_buf@.len() - old(params).out_buf_ofs { saved_output.pos as int } else { old(self).out_buf@.len() - old(params).out_buf_ofs };
                &&& final(params).out_buf_ofs == old(params).out_buf_ofs + n
                &&& forall|k: int| 0 <= k < n ==> final(self).out_buf@[old(params).out_buf_ofs + k] == old(params).local_buf.b@[k]
                &&& forall|k: int| 0 <= k < old(self).out_buf@.len() && !(old(params).out_buf_ofs <= k < old(params).out_buf_ofs + n) ==> final(self).out_buf@[k] == old(self).out_buf@[k]
                &&& (n < saved_output.pos ==> final(params).flush_ofs == n && final(params).flush_remaining == saved_output.pos - n)
                &&& (n == saved_output.pos ==> final(params).flush_ofs == old(params).flush_ofs && final(params).flush_remaining == old(params).flush_remaining)
            }),
            // direct mode (block written straight into the caller's buffer): only the offset moves
            !saved_output.local ==> final(params).out_buf_ofs == old(params).out_buf_ofs + saved_output.pos && final(self).out_buf@ == old(self).out_buf@,
            res == final(params).flush_remaining as i32,
            final(params).local_buf.b@ == old(params).local_buf.b@,
//@end
