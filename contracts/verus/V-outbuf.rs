// V-outbuf: the decoder's output cursor, unbounded in buffer size, position and budget.
// Representation invariant of OutputBuffer: position <= max <= slice.len()

//@extract struct OutputBuffer from miniz_oxide/src/inflate/output_buffer.rs
//@end

impl<'a> OutputBuffer<'a> {
    pub closed spec fn s_pos(&self) -> usize { self.position }
    pub closed spec fn s_max(&self) -> usize { self.max }
    pub closed spec fn s_buf(&self) -> Seq<u8> { self.slice@ }
    pub open spec fn inv(&self) -> bool { self.s_pos() <= self.s_max() && self.s_max() <= self.s_buf().len() }
}

//@extract fn from_slice_pos_and_max in impl<'a> OutputBuffer<'a> from miniz_oxide/src/inflate/output_buffer.rs
//@  rename res
//@  contract
        requires position <= old(slice)@.len(),
        ensures
            res.inv(), res.s_pos() == position, res.s_buf() == old(slice)@,
            // the granted window is min(position + budget, len): never past the end of the slice, never more than the budget
            res.s_max() == (if position + max_count <= old(slice)@.len() { (position + max_count) as usize } else { old(slice)@.len() as usize }),
//@end

//@extract fn bytes_left in impl<'a> OutputBuffer<'a> from miniz_oxide/src/inflate/output_buffer.rs
//@  rename res
//@  contract
        requires self.inv(),
        ensures res == self.s_max() - self.s_pos(),
//@end

//@extract fn write_byte in impl<'a> OutputBuffer<'a> from miniz_oxide/src/inflate/output_buffer.rs
//@  contract
        requires old(self).s_pos() < old(self).s_buf().len(),
        ensures
            final(self).s_pos() == old(self).s_pos() + 1, final(self).s_max() == old(self).s_max(),
            // writes exactly one byte, at the old position; everything else is unchanged (frame)
            final(self).s_buf() == old(self).s_buf().update(old(self).s_pos() as int, byte),
//@end

//@extract fn set_position in impl<'a> OutputBuffer<'a> from miniz_oxide/src/inflate/output_buffer.rs
//@  contract
        ensures final(self).s_pos() == position, final(self).s_max() == old(self).s_max(), final(self).s_buf() == old(self).s_buf(),
//@end

//@extract fn write_slice in impl<'a> OutputBuffer<'a> from miniz_oxide/src/inflate/output_buffer.rs
//@  contract
        requires old(self).s_pos() + data@.len() <= old(self).s_buf().len(), old(self).s_buf().len() <= 0x7FFF_FFFF_FFFF_FFFF,
        ensures
            final(self).s_pos() == old(self).s_pos() + data@.len(), final(self).s_max() == old(self).s_max(),
            final(self).s_buf().len() == old(self).s_buf().len(),
            forall|k: int| 0 <= k < data@.len() ==> final(self).s_buf()[old(self).s_pos() + k] == data@[k],
            forall|k: int| 0 <= k < old(self).s_buf().len() && !(old(self).s_pos() <= k < old(self).s_pos() + data@.len()) ==> final(self).s_buf()[k] == old(self).s_buf()[k],
//@end

//@extract struct InputWrapper from miniz_oxide/src/inflate/output_buffer.rs
//@end

impl<'a> InputWrapper<'a> {
    pub closed spec fn s_in(&self) -> Seq<u8> { self.slice@ }
}

//@extract fn advance in impl<'a> InputWrapper<'a> from miniz_oxide/src/inflate/output_buffer.rs
//@  contract
        requires steps <= old(self).s_in().len(),
        ensures final(self).s_in() == old(self).s_in().subrange(steps as int, old(self).s_in().len() as int),
//@end

//@extract fn bytes_left in impl<'a> InputWrapper<'a> from miniz_oxide/src/inflate/output_buffer.rs
//@  rename res
//@  contract
        ensures res == self.s_in().len(),
//@end
