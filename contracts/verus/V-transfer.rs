// V-transfer: the overlapping LZ77 copy routine of the decoder, unbounded in buffer size, match length, positions.
// Proved here: no panic (all six assert!s, every index, no overflow), length preserved, and the frame
// (every byte outside [out_pos, out_pos+match_len) keeps its value). The copy semantics itself is in K-applymatch.

//@extract fn transfer from miniz_oxide/src/inflate/core.rs
//@  contract
    requires
        old(out_slice)@.len() <= 0x7FFF_FFFF_FFFF_FFFF,   // every Rust slice (trusted language invariant)
        out_pos + match_len <= old(out_slice)@.len(),
        (out_buf_size_mask == usize::MAX && source_pos < out_pos)
            || (out_buf_size_mask < usize::MAX && out_buf_size_mask + 1 == old(out_slice)@.len() && source_pos <= out_buf_size_mask),
    ensures
        final(out_slice)@.len() == old(out_slice)@.len(),
        forall|k: int| 0 <= k < old(out_slice)@.len() && !(out_pos <= k < out_pos + match_len) ==> final(out_slice)@[k] == old(out_slice)@[k],
//@  before "let source_diff = if source_pos > out_pos {"
    let ghost src0 = source_pos;
    let ghost dst0 = out_pos;
    let ghost old_out = out_slice@;
    let ghost len0 = out_slice@.len();
    let ghost quads: int = (match_len as int / 4) * 4;
    assert(match_len >> 2usize == match_len / 4usize) by (bit_vector);
    assert(match_len & 3usize == match_len % 4usize) by (bit_vector);
    assert(quads <= match_len && match_len - quads == match_len as int % 4);
//@  loop 1
            invariant
                out_slice@.len() == len0, len0 == old_out.len(), len0 <= 0x7FFF_FFFF_FFFF_FFFF,
                dst0 <= out_pos, out_pos <= dst0 + quads, quads <= match_len, dst0 + match_len <= len0,
                quads % 4 == 0, (out_pos - dst0) % 4 == 0,
                end_pos <= dst0 + quads, end_pos + 3 <= len0 || end_pos == 0,
                source_pos - src0 == out_pos - dst0, src0 < dst0, dst0 - src0 >= 4,
                forall|k: int| 0 <= k < len0 && !(dst0 <= k < dst0 + match_len) ==> out_slice@[k] == old_out[k],
            decreases dst0 + quads - out_pos,
//@  loop 2
            invariant
                out_slice@.len() == len0, len0 == old_out.len(), len0 <= 0x7FFF_FFFF_FFFF_FFFF,
                dst0 <= out_pos, out_pos <= dst0 + quads, quads <= match_len, dst0 + match_len <= len0,
                quads % 4 == 0, (out_pos - dst0) % 4 == 0,
                end_pos <= dst0 + quads, end_pos + 3 <= len0 || end_pos == 0,
                source_pos - src0 == out_pos - dst0,
                (out_buf_size_mask == usize::MAX && src0 < dst0) || (out_buf_size_mask < usize::MAX && out_buf_size_mask + 1 == len0 && src0 <= out_buf_size_mask),
                forall|k: int| 0 <= k < len0 && !(dst0 <= k < dst0 + match_len) ==> out_slice@[k] == old_out[k],
            decreases dst0 + quads - out_pos,
//@  before "assert!(out_pos + 3 < out_slice.len());"
            assert(forall|x: usize| #![auto] x & out_buf_size_mask <= out_buf_size_mask) by { assert(forall|x: usize, m: usize| #![auto] x & m <= m) by (bit_vector); }
            assert(forall|x: usize| #![auto] x & 0xFFFF_FFFF_FFFF_FFFFusize == x) by (bit_vector);
//@  before "match match_len & 3 {"
    assert(forall|x: usize| #![auto] x & out_buf_size_mask <= out_buf_size_mask) by { assert(forall|x: usize, m: usize| #![auto] x & m <= m) by (bit_vector); }
    assert(forall|x: usize| #![auto] x & 0xFFFF_FFFF_FFFF_FFFFusize == x) by (bit_vector);
//@end
