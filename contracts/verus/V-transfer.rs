// V-transfer: the overlapping LZ77 copy routine of the decoder, unbounded in buffer size, match length, positions.
// Proved: no panic (all six assert!s, every index, no overflow), length preserved, and the FUNCTIONAL contract:
// the buffer afterwards equals lz_copy(old buffer, source_pos, out_pos, mask, match_len), where lz_copy is the
// RFC 1951 meaning of a match (byte i of the copy reads index (src+i)&mask of the buffer as already updated by the
// bytes before it) -- which also gives the frame (bytes outside [out_pos, out_pos+match_len) unchanged).

pub open spec fn lz_copy(buf: Seq<u8>, src: int, dst: int, mask: usize, n: nat) -> Seq<u8>
    decreases n
{
    if n == 0 { buf } else {
        let prev = lz_copy(buf, src, dst, mask, (n - 1) as nat);
        prev.update(dst + n - 1, prev[(((src + n - 1) as usize) & mask) as int])
    }
}

proof fn lemma_lz_len(buf: Seq<u8>, src: int, dst: int, mask: usize, n: nat)
    ensures lz_copy(buf, src, dst, mask, n).len() == buf.len(),
    decreases n
{
    if n > 0 { lemma_lz_len(buf, src, dst, mask, (n - 1) as nat); }
}

// bytes outside the destination range are untouched (frame), by induction
proof fn lemma_lz_frame(buf: Seq<u8>, src: int, dst: int, mask: usize, n: nat, k: int)
    requires 0 <= k < buf.len(), !(dst <= k < dst + n), 0 <= dst, dst + n <= buf.len(),
    ensures lz_copy(buf, src, dst, mask, n)[k] == buf[k],
    decreases n
{
    if n > 0 {
        lemma_lz_len(buf, src, dst, mask, (n - 1) as nat);
        lemma_lz_frame(buf, src, dst, mask, (n - 1) as nat, k);
    }
}

// distance-1 copy without wrap-around == run of the byte before the destination
proof fn lemma_lz_run(buf: Seq<u8>, dst: int, mask: usize, n: nat)
    requires
        1 <= dst, dst + n <= buf.len(), buf.len() <= 0x7FFF_FFFF_FFFF_FFFF,
        forall|x: usize| x < buf.len() ==> #[trigger] (x & mask) == x,
    ensures
        forall|k: int| 0 <= k < buf.len() ==> #[trigger] lz_copy(buf, dst - 1, dst, mask, n)[k] == (if dst <= k < dst + n { buf[dst - 1] } else { buf[k] }),
        lz_copy(buf, dst - 1, dst, mask, n).len() == buf.len(),
    decreases n
{
    lemma_lz_len(buf, dst - 1, dst, mask, n);
    if n > 0 {
        lemma_lz_run(buf, dst, mask, (n - 1) as nat);
        lemma_lz_len(buf, dst - 1, dst, mask, (n - 1) as nat);
        let x: usize = (dst - 1 + n - 1) as usize;
        assert(x & mask == x);
    }
}

proof fn lemma_lz_step(buf: Seq<u8>, src: int, dst: int, mask: usize, j: nat)
    ensures
        lz_copy(buf, src, dst, mask, j + 1) == lz_copy(buf, src, dst, mask, j).update(dst + j, lz_copy(buf, src, dst, mask, j)[(((src + j) as usize) & mask) as int]),
        lz_copy(buf, src, dst, mask, j + 1).len() == buf.len(),
{
    lemma_lz_len(buf, src, dst, mask, j + 1);
    assert(lz_copy(buf, src, dst, mask, j + 1) == lz_copy(buf, src, dst, mask, j).update(dst + (j + 1) - 1, lz_copy(buf, src, dst, mask, j)[(((src + (j + 1) - 1) as usize) & mask) as int]));
}
proof fn lemma_and_le(x: usize, m: usize) ensures x & m <= m { assert(x & m <= m) by (bit_vector); }
proof fn lemma_and_max(x: usize) ensures x & 0xFFFF_FFFF_FFFF_FFFFusize == x { assert(x & 0xFFFF_FFFF_FFFF_FFFFusize == x) by (bit_vector); }
proof fn lemma_and_pow2(x: usize, m: usize)
    requires m < 0xFFFF_FFFF_FFFF_FFFFusize, m & ((m + 1) as usize) == 0, x <= m,
    ensures x & m == x
{ assert(m < 0xFFFF_FFFF_FFFF_FFFFusize && m & ((m + 1) as usize) == 0 && x <= m ==> x & m == x) by (bit_vector); }
// under the function's precondition, an index below the buffer length is its own masked value
proof fn lemma_nowrap(x: usize, m: usize, len: int)
    requires x < len, m == usize::MAX || (m < usize::MAX && m + 1 == len && m & ((m + 1) as usize) == 0),
    ensures x & m == x
{ if m == usize::MAX { lemma_and_max(x); } else { lemma_and_pow2(x, m); } }

//@extract fn transfer from miniz_oxide/src/inflate/core.rs
//@  contract
    requires
        old(out_slice)@.len() <= 0x7FFF_FFFF_FFFF_FFFF,   // every Rust slice (trusted language invariant)
        out_pos + match_len <= old(out_slice)@.len(),
        (out_buf_size_mask == usize::MAX && source_pos < out_pos)
            || (out_buf_size_mask < usize::MAX && out_buf_size_mask + 1 == old(out_slice)@.len()
                && out_buf_size_mask & ((out_buf_size_mask + 1) as usize) == 0 && source_pos <= out_buf_size_mask),
    ensures
        final(out_slice)@ =~= lz_copy(old(out_slice)@, source_pos as int, out_pos as int, out_buf_size_mask, match_len as nat),
        final(out_slice)@.len() == old(out_slice)@.len(),
        forall|k: int| 0 <= k < old(out_slice)@.len() && !(out_pos <= k < out_pos + match_len) ==> final(out_slice)@[k] == old(out_slice)@[k],
//@  before "let source_diff = if source_pos > out_pos {"
    let ghost src0: int = source_pos as int;
    let ghost dst0: int = out_pos as int;
    let ghost mask = out_buf_size_mask;
    let ghost old_out = out_slice@;
    let ghost len0 = out_slice@.len();
    let ghost quads: int = (match_len as int / 4) * 4;
    assert(match_len >> 2usize == match_len / 4usize) by (bit_vector);
    assert(match_len & 3usize == match_len % 4usize) by (bit_vector);
    assert(quads <= match_len && match_len - quads == match_len as int % 4);
    proof {
        // frame for the final result, for every k (used for the third ensures)
        assert forall|k: int| 0 <= k < len0 && !(dst0 <= k < dst0 + match_len) implies lz_copy(old_out, src0, dst0, mask, match_len as nat)[k] == old_out[k] by {
            lemma_lz_frame(old_out, src0, dst0, mask, match_len as nat, k);
        }
        lemma_lz_len(old_out, src0, dst0, mask, match_len as nat);
    }
//@  after "out_slice[out_pos..end].fill(init);"
        proof {
            assert(src0 == dst0 - 1);
            assert forall|x: usize| x < len0 implies #[trigger] (x & mask) == x by { lemma_nowrap(x, mask, len0 as int); }
            lemma_lz_run(old_out, dst0, mask, quads as nat);
            assert(out_slice@ =~= lz_copy(old_out, src0, dst0, mask, quads as nat));
        }
//@  loop 1
            invariant
                out_slice@.len() == len0, len0 == old_out.len(), len0 <= 0x7FFF_FFFF_FFFF_FFFF,
                0 <= dst0, 0 <= src0, dst0 <= out_pos, out_pos <= dst0 + quads, quads <= match_len, dst0 + match_len <= len0,
                quads % 4 == 0, (out_pos - dst0) % 4 == 0,
                end_pos <= dst0 + quads, end_pos + 3 <= len0 || end_pos == 0,
                source_pos - src0 == out_pos - dst0, src0 < dst0, dst0 - src0 >= 4,
                mask == out_buf_size_mask,
                mask == usize::MAX || (mask < usize::MAX && mask + 1 == len0 && mask & ((mask + 1) as usize) == 0),
                out_slice@ =~= lz_copy(old_out, src0, dst0, mask, (out_pos - dst0) as nat),
            decreases dst0 + quads - out_pos,
//@  before "out_slice.copy_within(source_pos..=source_pos + 3, out_pos);"
            let ghost j: nat = (out_pos - dst0) as nat;
            let ghost cur = out_slice@;
//@  after "out_slice.copy_within(source_pos..=source_pos + 3, out_pos);"
            proof {
                lemma_lz_step(old_out, src0, dst0, mask, j); lemma_lz_step(old_out, src0, dst0, mask, j + 1);
                lemma_lz_step(old_out, src0, dst0, mask, j + 2); lemma_lz_step(old_out, src0, dst0, mask, j + 3);
                lemma_nowrap((src0 + j) as usize, mask, len0 as int); lemma_nowrap((src0 + j + 1) as usize, mask, len0 as int);
                lemma_nowrap((src0 + j + 2) as usize, mask, len0 as int); lemma_nowrap((src0 + j + 3) as usize, mask, len0 as int);
                let s1 = lz_copy(old_out, src0, dst0, mask, j + 1);
                let s2 = lz_copy(old_out, src0, dst0, mask, j + 2);
                let s3 = lz_copy(old_out, src0, dst0, mask, j + 3);
                let s4 = lz_copy(old_out, src0, dst0, mask, j + 4);
                assert(s1 =~= cur.update(dst0 + j, cur[src0 + j]));
                assert(s2 =~= s1.update(dst0 + j + 1, cur[src0 + j + 1]));
                assert(s3 =~= s2.update(dst0 + j + 2, cur[src0 + j + 2]));
                assert(s4 =~= s3.update(dst0 + j + 3, cur[src0 + j + 3]));
                assert(out_slice@ =~= s4);
            }
//@  loop 2
            invariant
                out_slice@.len() == len0, len0 == old_out.len(), len0 <= 0x7FFF_FFFF_FFFF_FFFF,
                0 <= dst0, 0 <= src0, dst0 <= out_pos, out_pos <= dst0 + quads, quads <= match_len, dst0 + match_len <= len0,
                quads % 4 == 0, (out_pos - dst0) % 4 == 0,
                end_pos <= dst0 + quads, end_pos + 3 <= len0 || end_pos == 0,
                source_pos - src0 == out_pos - dst0, 0 <= src0 <= len0,
                mask == out_buf_size_mask,
                (out_buf_size_mask == usize::MAX && src0 < dst0) || (out_buf_size_mask < usize::MAX && out_buf_size_mask + 1 == len0 && src0 <= out_buf_size_mask),
                out_slice@ =~= lz_copy(old_out, src0, dst0, mask, (out_pos - dst0) as nat),
            decreases dst0 + quads - out_pos,
//@  before "assert!(out_pos + 3 < out_slice.len());"
            let ghost j: nat = (out_pos - dst0) as nat;
            let ghost cur = out_slice@;
            assert(out_pos + 3 < len0);
            assert(source_pos as int == src0 + (out_pos - dst0));
            assert(source_pos as int + 4 <= 2 * len0);
            proof {
                lemma_and_le(source_pos, mask); lemma_and_le((source_pos + 1) as usize, mask); lemma_and_le((source_pos + 2) as usize, mask); lemma_and_le((source_pos + 3) as usize, mask);
                lemma_and_max(source_pos); lemma_and_max((source_pos + 1) as usize); lemma_and_max((source_pos + 2) as usize); lemma_and_max((source_pos + 3) as usize);
            }
//@  after "out_slice[out_pos + 3] = out_slice[(source_pos + 3) & out_buf_size_mask];"
            proof {
                lemma_lz_step(old_out, src0, dst0, mask, j); lemma_lz_step(old_out, src0, dst0, mask, j + 1);
                lemma_lz_step(old_out, src0, dst0, mask, j + 2); lemma_lz_step(old_out, src0, dst0, mask, j + 3);
                assert(out_slice@ =~= lz_copy(old_out, src0, dst0, mask, j + 4));
            }
//@  before "match match_len & 3 {"
    proof {
        lemma_and_le(source_pos, mask); lemma_and_le((source_pos + 1) as usize, mask); lemma_and_le((source_pos + 2) as usize, mask);
        lemma_and_max(source_pos); lemma_and_max((source_pos + 1) as usize); lemma_and_max((source_pos + 2) as usize);
        assert(out_pos == dst0 + quads);
        assert(source_pos == src0 + quads);
        let q = quads as nat;
        lemma_lz_step(old_out, src0, dst0, mask, q); lemma_lz_step(old_out, src0, dst0, mask, q + 1); lemma_lz_step(old_out, src0, dst0, mask, q + 2);
    }
//@end

// vacuity guard: the precondition of transfer is satisfiable (this proof fn must FAIL)
proof fn canary_transfer_pre(len: int, source_pos: usize, out_pos: usize, match_len: usize, mask: usize)
    requires
        len <= 0x7FFF_FFFF_FFFF_FFFF, out_pos + match_len <= len,
        (mask == usize::MAX && source_pos < out_pos)
            || (mask < usize::MAX && mask + 1 == len && mask & ((mask + 1) as usize) == 0 && source_pos <= mask),
{ assert(false); }
