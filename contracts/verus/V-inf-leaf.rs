// V-inf-leaf: small decoder leaves, unbounded.
pub enum TINFLStatus { FailedCannotMakeProgress, BadParam, Adler32Mismatch, Failed, Done, NeedsMoreInput, HasMoreOutput }
pub enum Action { None, End(TINFLStatus) }
pub const TINFL_FLAG_HAS_MORE_INPUT: u32 = 2;
type BitBuffer = u64;

//@extract struct LocalVars from miniz_oxide/src/inflate/core.rs
//@end

//@extract fn undo_bytes from miniz_oxide/src/inflate/core.rs
//@  mintype u32
//@  rename res
//@  contract
    ensures
        res == (if old(l).num_bits / 8 <= max { old(l).num_bits / 8 } else { max }),
        final(l).num_bits == old(l).num_bits - 8 * res,
        final(l).bit_buf == old(l).bit_buf, final(l).dist == old(l).dist, final(l).counter == old(l).counter, final(l).num_extra == old(l).num_extra,
        max >= old(l).num_bits / 8 ==> final(l).num_bits < 8,
//@  before "l.num_bits -= res << 3;"
    let ghost nb: u32 = l.num_bits;
    assert(nb >> 3u32 == nb / 8u32) by (bit_vector);
    assert(res <= 0x1FFF_FFFFu32 ==> res << 3u32 == res * 8u32) by (bit_vector);
//@end

//@extract fn num_extra_bits_for_distance_code from miniz_oxide/src/inflate/core.rs
//@  rename res
//@  contract
    ensures
        code < 30 ==> res == spec_rfc_dist_extra(code as int),
//@  before "let c = code >> 1;"
    assert(code >> 1u8 == code / 2u8) by (bit_vector);
//@end

// RFC 1951 §3.2.5: distance codes 0..3 have 0 extra bits, then (code/2 - 1)
pub open spec fn spec_rfc_dist_extra(code: int) -> int { if code < 4 { 0 } else { code / 2 - 1 } }

proof fn canary_undo_bytes_pre() { assert(false); }
