// V-def-bits: the compressor's bit writer on the real OutputBufferOxide, unbounded in buffer size and position.
// Proved: no panic (the value assert!, every index, no overflow, shift amounts), byte/bit counters, frame.
// The bit VALUES written are checked for all inputs by Kani (k_put_bits_model_equiv: put_bits_appends_lsb_first).

//@extract struct OutputBufferOxide from miniz_oxide/src/deflate/core.rs
//@end

pub open spec fn pow2(n: nat) -> nat decreases n { if n == 0 { 1 } else { 2 * pow2((n - 1) as nat) } }

//@extract fn put_bits in impl OutputBufferOxide<'_> from miniz_oxide/src/deflate/core.rs
//@  contract
        requires
            len <= 16, (bits as int) < (1u32 << len) as int || len == 0 && bits == 0,
            old(self).bits_in + len <= 32, old(self).bits_in < 32,
            old(self).inner_pos + 4 <= old(self).inner@.len(),
        ensures
            final(self).bits_in == (old(self).bits_in + len) % 8,
            final(self).inner_pos == old(self).inner_pos + (old(self).bits_in + len) / 8,
            final(self).inner@.len() == old(self).inner@.len(),
            final(self).local == old(self).local,
            forall|k: int| 0 <= k < old(self).inner@.len() && !(old(self).inner_pos <= k < final(self).inner_pos) ==> final(self).inner@[k] == old(self).inner@[k],
//@  before "assert!(bits <= ((1u32 << len) - 1u32));"
        assert(len <= 16u32 ==> (1u32 << len) >= 1u32) by (bit_vector);
        let ghost bi0 = self.bits_in;
        let ghost pos0 = self.inner_pos;
        let ghost buf0 = self.inner@;
//@  loop 1
            invariant
                self.bits_in <= 32, self.bits_in % 8 == (bi0 + len) % 8, self.inner_pos >= pos0,
                (self.inner_pos - pos0) * 8 + self.bits_in == bi0 + len,
                self.inner@.len() == buf0.len(), pos0 + 4 <= buf0.len(), bi0 + len <= 32,
                self.local == old(self).local,
                forall|k: int| 0 <= k < buf0.len() && !(pos0 <= k < self.inner_pos) ==> self.inner@[k] == buf0[k],
            decreases self.bits_in,
//@end

//@extract fn pad_to_bytes in impl OutputBufferOxide<'_> from miniz_oxide/src/deflate/core.rs
//@  contract
        requires
            old(self).bits_in < 8,
            old(self).inner_pos + 4 <= old(self).inner@.len(),
        ensures
            final(self).bits_in == 0,
            final(self).inner_pos == old(self).inner_pos + (if old(self).bits_in == 0 { 0int } else { 1int }),
            final(self).inner@.len() == old(self).inner@.len(),
//@  before "let len = 8 - self.bits_in;"
            assert(forall|l: u32| #![auto] l <= 16u32 ==> (1u32 << l) >= 1u32) by (bit_vector);
//@end

//@extract fn put_bits_no_flush in impl OutputBufferOxide<'_> from miniz_oxide/src/deflate/core.rs
//@  contract
        requires old(self).bits_in + len <= 32, old(self).bits_in < 32,
        ensures
            final(self).bits_in == old(self).bits_in + len, final(self).inner_pos == old(self).inner_pos,
            final(self).inner@ == old(self).inner@, final(self).local == old(self).local,
//@end

//@extract fn write_bytes in impl OutputBufferOxide<'_> from miniz_oxide/src/deflate/core.rs
//@  contract
        requires
            old(self).bits_in == 0, old(self).inner_pos + bytes@.len() <= old(self).inner@.len(), old(self).inner@.len() <= 0x7FFF_FFFF_FFFF_FFFF,
        ensures
            final(self).inner_pos == old(self).inner_pos + bytes@.len(), final(self).bits_in == 0, final(self).bit_buffer == old(self).bit_buffer,
            final(self).inner@.len() == old(self).inner@.len(),
            forall|k: int| 0 <= k < bytes@.len() ==> final(self).inner@[old(self).inner_pos + k] == bytes@[k],
            forall|k: int| 0 <= k < old(self).inner@.len() && !(old(self).inner_pos <= k < old(self).inner_pos + bytes@.len()) ==> final(self).inner@[k] == old(self).inner@[k],
//@end

//@extract struct SavedOutputBufferOxide from miniz_oxide/src/deflate/core.rs
//@end

//@extract fn save in impl OutputBufferOxide<'_> from miniz_oxide/src/deflate/core.rs
//@  rename res
//@  contract
        ensures res.pos == self.inner_pos, res.bit_buffer == self.bit_buffer, res.bits_in == self.bits_in, res.local == self.local,
//@end

//@extract fn load in impl OutputBufferOxide<'_> from miniz_oxide/src/deflate/core.rs
//@  contract
        ensures
            final(self).inner_pos == saved.pos, final(self).bit_buffer == saved.bit_buffer, final(self).bits_in == saved.bits_in, final(self).local == saved.local,
            final(self).inner@ == old(self).inner@,
//@end

//@extract fn is_byte_aligned in impl OutputBufferOxide<'_> from miniz_oxide/src/deflate/core.rs
//@  rename res
//@  contract
        ensures res == (self.bits_in == 0),
//@end

//@extract struct BitBuffer from miniz_oxide/src/deflate/core.rs
//@end

//@extract fn put_fast in impl BitBuffer from miniz_oxide/src/deflate/core.rs
//@  contract
        requires old(self).bits_in + len <= 64, old(self).bits_in < 64,
        ensures final(self).bits_in == old(self).bits_in + len,
//@end

