#[cfg(kani)]
#[allow(unused_imports, dead_code, unused_variables, unused_mut, clippy::all)]
mod verif_inflate_core {
    use super::*;

//@SPEC@

    // ------------------------------------------------------------------
    // helpers: fully symbolic decoder object (every register, every table, every code-size array)
    // ------------------------------------------------------------------
    const ALL_STATES: [State; 35] = [
        Start, ReadZlibCmf, ReadZlibFlg, ReadBlockHeader, BlockTypeNoCompression, RawHeader, RawMemcpy1, RawMemcpy2,
        ReadTableSizes, ReadHufflenTableCodeSize, ReadLitlenDistTablesCodeSize, ReadExtraBitsCodeSize, DecodeLitlen,
        WriteSymbol, ReadExtraBitsLitlen, DecodeDistance, ReadExtraBitsDistance, RawReadFirstByte, RawStoreFirstByte,
        WriteLenBytesToEnd, BlockDone, HuffDecodeOuterLoop1, HuffDecodeOuterLoop2, ReadAdler32, DoneForever,
        BlockTypeUnexpected, BadCodeSizeSum, BadDistOrLiteralTableLength, BadTotalSymbols, BadZlibHeader,
        DistanceOutOfBounds, BadRawLength, BadCodeSizeDistPrevLookup, InvalidLitlen, InvalidDist,
    ];
    const FAILURE_STATES: [State; 10] = [
        BlockTypeUnexpected, BadCodeSizeSum, BadDistOrLiteralTableLength, BadTotalSymbols, BadZlibHeader,
        DistanceOutOfBounds, BadRawLength, BadCodeSizeDistPrevLookup, InvalidLitlen, InvalidDist,
    ];
    fn any_state() -> State {
        let i: usize = kani::any();
        kani::assume(i < 35);
        ALL_STATES[i]
    }
    fn any_table() -> HuffmanTable {
        HuffmanTable { look_up: kani::any(), tree: kani::any() }
    }
    fn any_decompressor(state: State) -> DecompressorOxide {
        DecompressorOxide {
            state,
            num_bits: kani::any(),
            z_header0: kani::any(),
            z_header1: kani::any(),
            z_adler32: kani::any(),
            finish: kani::any(),
            block_type: kani::any(),
            check_adler32: kani::any(),
            dist: kani::any(),
            counter: kani::any(),
            num_extra: kani::any(),
            table_sizes: kani::any(),
            bit_buf: kani::any(),
            tables: [any_table(), any_table(), any_table()],
            code_size_literal: kani::any(),
            code_size_dist: kani::any(),
            code_size_huffman: kani::any(),
            raw_header: kani::any(),
            len_codes: kani::any(),
        }
    }
    /// Snapshot of every scalar register plus one element of every array at symbolic indices chosen before the
    /// call (sound for "all indices"; avoids cloning the 11 KB object, which costs CBMC gigabytes).
    #[derive(Clone, Copy, PartialEq, Eq)]
    struct Snap {
        state: State, num_bits: u32, z_header0: u32, z_header1: u32, z_adler32: u32, finish: u8, block_type: u8,
        check_adler32: u32, dist: u32, counter: u32, num_extra: u8, table_sizes: [u16; 3], bit_buf: BitBuffer,
        raw_header: [u8; 4], ix: [usize; 7], lu: i16, tr: i16, csl: u8, csd: u8, csh: u8, lc: u8,
    }
    fn snap_at(r: &DecompressorOxide, ix: [usize; 7]) -> Snap {
        Snap {
            state: r.state, num_bits: r.num_bits, z_header0: r.z_header0, z_header1: r.z_header1, z_adler32: r.z_adler32,
            finish: r.finish, block_type: r.block_type, check_adler32: r.check_adler32, dist: r.dist, counter: r.counter,
            num_extra: r.num_extra, table_sizes: r.table_sizes, bit_buf: r.bit_buf, raw_header: r.raw_header, ix,
            lu: r.tables[ix[0]].look_up[ix[1]], tr: r.tables[ix[0]].tree[ix[2]], csl: r.code_size_literal[ix[3]],
            csd: r.code_size_dist[ix[4]], csh: r.code_size_huffman[ix[5]], lc: r.len_codes[ix[6]],
        }
    }
    fn snap(r: &DecompressorOxide) -> Snap {
        let ix: [usize; 7] = kani::any();
        kani::assume(ix[0] < 3 && ix[1] < 1024 && ix[2] < MAX_HUFF_TREE_SIZE && ix[3] < 288 && ix[4] < 32 && ix[5] < 19 && ix[6] < 512);
        snap_at(r, ix)
    }
    fn same_decompressor(r: &DecompressorOxide, s: &Snap) -> bool { snap_at(r, s.ix) == *s }
    fn is_failure_state(s: State) -> bool {
        matches!(s, BlockTypeUnexpected | BadCodeSizeSum | BadDistOrLiteralTableLength | BadTotalSymbols | BadZlibHeader
            | DistanceOutOfBounds | BadRawLength | BadCodeSizeDistPrevLookup | InvalidLitlen | InvalidDist)
    }
    fn is_rfc_dist_base(d: u32) -> bool {
        matches!(d, 1 | 2 | 3 | 4 | 5 | 7 | 9 | 13 | 17 | 25 | 33 | 49 | 65 | 97 | 129 | 193 | 257 | 385 | 513 | 769 | 1025 | 1537 | 2049 | 3073
            | 4097 | 6145 | 8193 | 12289 | 16385 | 24577)
    }
    /// update_adler32 contract model (real function: K-adler): identity on empty data, an injective-looking mix otherwise.
    fn model_adler(adler: u32, data: &[u8]) -> u32 {
        if data.is_empty() { adler } else { adler.wrapping_mul(31).wrapping_add(data.len() as u32).wrapping_add(data[0] as u32) ^ 0x5bd1_e995 }
    }

    // ------------------------------------------------------------------
    // K-tables : decoder constants against the RFC (symbolic index, complete)
    // ------------------------------------------------------------------
    #[kani::proof]
    fn k_inf_tables() {
        let i: usize = kani::any();
        kani::assume(i < 32);
        if i < 29 {
            assert!(LENGTH_BASE[i] == RFC_LEN_BASE[i], "OBL:tables.length_base_is_rfc [C03 C04]");
            assert!(LENGTH_EXTRA[i] == RFC_LEN_EXTRA[i], "OBL:tables.length_extra_is_rfc [C03 C04]");
        } else {
            // padding entries only exist so that masked indexing cannot go out of bounds; symbols > 285 are rejected
            // before use (arm HuffDecodeOuterLoop1 / decompress_fast): see k_arm_HuffDecodeOuterLoop1
            assert!(LENGTH_EXTRA[i] == 0, "OBL:tables.length_padding_no_extra_bits [C05]");
        }
        if i < 30 {
            assert!(DIST_BASE[i] == RFC_DIST_BASE[i], "OBL:tables.dist_base_is_rfc [C03 C04]");
            assert!(num_extra_bits_for_distance_code(i as u8) == RFC_DIST_EXTRA[i], "OBL:tables.dist_extra_is_rfc [C03 C04]");
        }
        if i < 19 {
            assert!(HUFFMAN_LENGTH_ORDER[i] == RFC_CL_ORDER[i], "OBL:tables.code_length_order_is_rfc [C03 C10]");
        }
        assert!(MIN_TABLE_SIZES[0] == 257 && MIN_TABLE_SIZES[1] == 1 && MIN_TABLE_SIZES[2] == 4, "OBL:tables.min_table_sizes_are_rfc [C03]");
        // max length / distance representable: 258 and 32768
        assert!(RFC_LEN_BASE[28] == 258 && RFC_DIST_BASE[29] as u32 + ((1u32 << RFC_DIST_EXTRA[29]) - 1) == 32768, "OBL:tables.max_len_258_max_dist_32768 [C03]");
    }

    #[kani::proof]
    fn k_start_static_table() {
        let mut r = any_decompressor(any_state());
        start_static_table(&mut r);
        let i: usize = kani::any();
        kani::assume(i < 288);
        assert!(r.table_sizes[LITLEN_TABLE] == 288 && r.table_sizes[DIST_TABLE] == 32, "OBL:static.table_sizes_288_32 [C03]");
        assert!(r.code_size_literal[i] == rfc_fixed_litlen_len(i), "OBL:static.litlen_lengths_are_rfc_fixed_code [C03]");
        assert!(i >= 32 || r.code_size_dist[i] == 5, "OBL:static.dist_lengths_all_5 [C03]");
    }

    // ------------------------------------------------------------------
    // K-inf-leaf : undo_bytes, end_of_input, validate_zlib_header (complete)
    // ------------------------------------------------------------------
    #[kani::proof]
    fn k_undo_bytes() {
        let mut l = LocalVars { bit_buf: kani::any(), num_bits: kani::any(), dist: kani::any(), counter: kani::any(), num_extra: kani::any() };
        let l0 = l;
        let max: u32 = kani::any();
        let res = undo_bytes(&mut l, max);
        assert!(res == core::cmp::min(l0.num_bits / 8, max), "OBL:undo.result_is_min_whole_bytes_max [C06]");
        assert!(l.num_bits == l0.num_bits - 8 * res, "OBL:undo.num_bits_reduced_by_8_res [C06]");
        assert!(l.bit_buf == l0.bit_buf && l.dist == l0.dist && l.counter == l0.counter && l.num_extra == l0.num_extra, "OBL:undo.frame [C06 C07]");
        if max >= l0.num_bits / 8 { assert!(l.num_bits < 8, "OBL:undo.unclamped_leaves_less_than_a_byte [C06 C19]"); }
    }

    #[kani::proof]
    fn k_end_of_input() {
        let flags: u32 = kani::any();
        match end_of_input(flags) {
            Action::End(TINFLStatus::NeedsMoreInput) => assert!(flags & TINFL_FLAG_HAS_MORE_INPUT != 0, "OBL:eoi.needs_more_input_iff_flag [C04 C13]"),
            Action::End(TINFLStatus::FailedCannotMakeProgress) => assert!(flags & TINFL_FLAG_HAS_MORE_INPUT == 0, "OBL:eoi.cannot_make_progress_iff_no_flag [C04 C13]"),
            _ => assert!(false, "OBL:eoi.only_two_outcomes [C04]"),
        }
    }

    #[kani::proof]
    fn k_validate_zlib_header() {
        let cmf: u32 = kani::any();
        let flg: u32 = kani::any();
        kani::assume(cmf < 256 && flg < 256); // both come from read_byte (u8) in arms ReadZlibCmf / ReadZlibFlg
        let flags: u32 = kani::any();
        let mask: usize = kani::any();
        // ring mode: mask = len.saturating_sub(1) < usize::MAX; flat mode: mask == usize::MAX
        kani::assume(if flags & TINFL_FLAG_USING_NON_WRAPPING_OUTPUT_BUF != 0 { mask == usize::MAX } else { mask < usize::MAX });
        let a = validate_zlib_header(cmf, flg, flags, mask);
        let fits = flags & TINFL_FLAG_USING_NON_WRAPPING_OUTPUT_BUF != 0 || mask + 1 >= (1usize << ((cmf >> 4) + 8));
        let ok = rfc_zlib_hdr_ok(cmf, flg) && fits;
        match a {
            Action::Jump(ReadBlockHeader) => assert!(ok, "OBL:zhdr.accepted_only_if_valid_and_window_fits [C04 C09]"),
            Action::Jump(BadZlibHeader) => assert!(!ok, "OBL:zhdr.rejected_only_if_invalid_or_window_too_big [C03 C09]"),
            _ => assert!(false, "OBL:zhdr.only_two_outcomes [C04 C09]"),
        }
        kani::cover!(ok, "COV:zhdr.some_accepted");
        kani::cover!(rfc_zlib_hdr_ok(cmf, flg) && !fits, "COV:zhdr.ring_too_small");
    }

    // ------------------------------------------------------------------
    // K-prologue : the real decompress_with_limit entered with bad geometry / in a terminal state.
    // Everything else symbolic (all registers and tables, flags, positions, budget).
    // ------------------------------------------------------------------
    const OUT_CAP: usize = 16;

    #[kani::proof]
    #[kani::stub(update_adler32, model_adler)]
    fn k_prologue_bad_geometry() {
        // the state is read only after the geometry check; a concrete terminal state keeps the (infeasible)
        // fall-through path cheap for symbolic execution. All other fields are symbolic.
        bad_geometry_body(DoneForever);
        bad_geometry_body(InvalidDist);
    }
    fn bad_geometry_body(s: State) {
        let mut r = any_decompressor(s);
        let r0 = snap(&r);
        let inb: [u8; 4] = kani::any();
        let inl: usize = kani::any();
        kani::assume(inl <= 4);
        let mut out: [u8; OUT_CAP] = kani::any();
        let out0 = out;
        let outl: usize = kani::any();
        kani::assume(outl <= OUT_CAP);
        let out_pos: usize = kani::any();
        let out_max: usize = kani::any();
        let flags: u32 = kani::any();
        let flat = flags & TINFL_FLAG_USING_NON_WRAPPING_OUTPUT_BUF != 0;
        let pow2 = matches!(outl, 0 | 1 | 2 | 4 | 8 | 16);
        let bad = (!flat && !pow2) || out_pos > outl;
        kani::assume(r.num_bits <= 63);
        let (st, c, w) = decompress_with_limit(&mut r, &inb[..inl], &mut out[..outl], out_pos, out_max, flags);
        if bad {
            assert!(st == TINFLStatus::BadParam && c == 0 && w == 0, "OBL:prologue.bad_geometry_is_badparam_0_0 [C05]");
            assert!(r.state == r0.state && r.num_bits == r0.num_bits && r.bit_buf == r0.bit_buf && r.counter == r0.counter
                && r.dist == r0.dist && r.num_extra == r0.num_extra && r.check_adler32 == r0.check_adler32
                && r.z_adler32 == r0.z_adler32 && r.z_header0 == r0.z_header0 && r.z_header1 == r0.z_header1
                && r.finish == r0.finish && r.block_type == r0.block_type, "OBL:prologue.bad_geometry_leaves_registers_untouched [C05]");
            assert!(out == out0, "OBL:prologue.bad_geometry_writes_nothing [C05 C08]");
        } else {
            assert!(st != TINFLStatus::BadParam, "OBL:prologue.usable_geometry_never_badparam [C05]");
        }
        kani::cover!(!flat && !pow2, "COV:prologue.not_pow2");
        kani::cover!(out_pos > outl, "COV:prologue.pos_past_end");
    }

    fn failure_absorbing_body(s: State) {
        let mut r = any_decompressor(s);
        kani::assume(r.num_bits <= 63);
        let r0 = snap(&r);
        let inb: [u8; 4] = kani::any();
        let inl: usize = kani::any();
        kani::assume(inl <= 4);
        let mut out: [u8; OUT_CAP] = kani::any();
        let out0 = out;
        let outl: usize = kani::any();
        kani::assume(outl <= OUT_CAP);
        let out_pos: usize = kani::any();
        let out_max: usize = kani::any();
        let flags: u32 = kani::any();
        let flat = flags & TINFL_FLAG_USING_NON_WRAPPING_OUTPUT_BUF != 0;
        kani::assume((flat || outl == 0 || outl & (outl - 1) == 0) && out_pos <= outl);
        let (st, c, w) = decompress_with_limit(&mut r, &inb[..inl], &mut out[..outl], out_pos, out_max, flags);
        assert!(st == TINFLStatus::Failed, "OBL:prologue.failed_stream_keeps_failing [C04 C05 C13]");
        assert!(c == 0 && w == 0, "OBL:prologue.failed_stream_consumes_and_writes_nothing [C05 C08]");
        assert!(r.state == s, "OBL:prologue.failure_state_absorbing [C04 C05]");
        assert!(out == out0, "OBL:prologue.failed_stream_output_untouched [C08]");
        assert!(r.check_adler32 == r0.check_adler32 && r.z_adler32 == r0.z_adler32, "OBL:prologue.failed_stream_checksums_untouched [C09]");
    }
    /// each of the 10 failure states with a concrete state value (a symbolic one makes CBMC expand all 25 arms)
    #[kani::proof]
    #[kani::stub(update_adler32, model_adler)]
    fn k_prologue_failure_absorbing_a() {
        failure_absorbing_body(BlockTypeUnexpected);
        failure_absorbing_body(BadCodeSizeSum);
        failure_absorbing_body(BadDistOrLiteralTableLength);
        failure_absorbing_body(BadTotalSymbols);
        failure_absorbing_body(BadZlibHeader);
    }
    #[kani::proof]
    #[kani::stub(update_adler32, model_adler)]
    fn k_prologue_failure_absorbing_b() {
        failure_absorbing_body(DistanceOutOfBounds);
        failure_absorbing_body(BadRawLength);
        failure_absorbing_body(BadCodeSizeDistPrevLookup);
        failure_absorbing_body(InvalidLitlen);
        failure_absorbing_body(InvalidDist);
    }

    #[kani::proof]
    #[kani::stub(update_adler32, model_adler)]
    fn k_prologue_done_forever() {
        let mut r = any_decompressor(DoneForever);
        kani::assume(r.num_bits <= 63);
        let r0 = snap(&r);
        let inb: [u8; 4] = kani::any();
        let inl: usize = kani::any();
        kani::assume(inl <= 4);
        let mut out: [u8; OUT_CAP] = kani::any();
        let out0 = out;
        let outl: usize = kani::any();
        kani::assume(outl <= OUT_CAP);
        let out_pos: usize = kani::any();
        let out_max: usize = kani::any();
        let flags: u32 = kani::any();
        let flat = flags & TINFL_FLAG_USING_NON_WRAPPING_OUTPUT_BUF != 0;
        kani::assume((flat || outl == 0 || outl & (outl - 1) == 0) && out_pos <= outl);
        let (st, c, w) = decompress_with_limit(&mut r, &inb[..inl], &mut out[..outl], out_pos, out_max, flags);
        assert!(w == 0 && out == out0, "OBL:prologue.done_writes_nothing [C08 C13]");
        // bytes after the end of the stream are never consumed; whole unread bytes in the bit buffer are given back
        assert!(c == 0, "OBL:prologue.done_consumes_nothing_more [C06]");
        assert!(r.state == DoneForever, "OBL:prologue.done_is_stable [C13]");
        let zlib = flags & TINFL_FLAG_PARSE_ZLIB_HEADER != 0;
        let ignore = flags & TINFL_FLAG_IGNORE_ADLER32 != 0;
        let mismatch = zlib && !ignore && r0.check_adler32 != r0.z_adler32;
        if mismatch {
            assert!(st == TINFLStatus::Adler32Mismatch, "OBL:prologue.wrong_trailer_is_adler32_mismatch [C09]");
        } else {
            assert!(st == TINFLStatus::Done, "OBL:prologue.done_when_trailer_matches_or_ignored [C09]");
        }
        assert!(r.check_adler32 == r0.check_adler32, "OBL:prologue.done_running_adler_unchanged_by_empty_update [C09 C16]");
        kani::cover!(mismatch, "COV:prologue.mismatch");
        kani::cover!(zlib && ignore && r0.check_adler32 != r0.z_adler32, "COV:prologue.ignored_mismatch");
    }


    // ------------------------------------------------------------------
    // K-arms : one evaluation of a generate_state! arm body (wrappers verif_arm_<State> are generated mechanically
    // from the text of decompress_with_limit on every run) from a fully symbolic decoder object, symbolic registers,
    // flags, positions and budget. Callees with unbounded loops over symbolic tables are replaced by contract
    // models. Input <= 8 bytes, output <= 32 bytes (bounded), everything else complete.
    // ------------------------------------------------------------------
    const AIN: usize = 8;
    const AOUT: usize = 32;

    /// invariant of the register file between arms: at most 64 buffered bits (so shifts are defined) and no stray
    /// bits above num_bits (re-established by every reader: checked as a postcondition of each arm).
    fn inv_l(l: &LocalVars) -> bool { l.num_bits <= 64 && (l.num_bits == 64 || l.bit_buf >> l.num_bits == 0) }
    fn any_l() -> LocalVars {
        let l = LocalVars { bit_buf: kani::any(), num_bits: kani::any(), dist: kani::any(), counter: kani::any(), num_extra: kani::any() };
        kani::assume(inv_l(&l));
        l
    }
    /// unread bit stream as (value of the first <=64 bits, number of bits) -- bits in the bit buffer first, then input
    fn bits_view(l: &LocalVars, rest: &[u8]) -> (u128, u32) {
        // exact: num_bits <= 64 and at most AIN = 8 input bytes => at most 128 bits
        let mut v = l.bit_buf as u128;
        let mut n = l.num_bits;
        let mut k = 0;
        while k < AIN { if k < rest.len() && n <= 120 { v |= (rest[k] as u128) << n; n += 8; } k += 1; }
        (v, n)
    }

    /// apply_match / transfer contract model: asserts the callee's precondition at the real call site, then writes
    /// the RFC 1951 copy semantics for ONE observed byte (sound for assertions about that byte) via a ghost index.
    static AM_CALLS: ::core::sync::atomic::AtomicUsize = ::core::sync::atomic::AtomicUsize::new(0);
    static AM_POS: ::core::sync::atomic::AtomicUsize = ::core::sync::atomic::AtomicUsize::new(0);
    static AM_LEN: ::core::sync::atomic::AtomicUsize = ::core::sync::atomic::AtomicUsize::new(0);
    static AM_SRC: ::core::sync::atomic::AtomicUsize = ::core::sync::atomic::AtomicUsize::new(0);
    fn model_transfer(out_slice: &mut [u8], source_pos: usize, out_pos: usize, match_len: usize, out_buf_size_mask: usize) {
        use ::core::sync::atomic::Ordering::Relaxed;
        assert!(out_pos <= out_slice.len() && match_len <= out_slice.len() - out_pos, "OBL:arms.transfer_pre_destination_in_bounds [C05 C08]");
        if out_buf_size_mask == usize::MAX {
            assert!(source_pos < out_pos, "OBL:arms.transfer_pre_flat_source_before_destination [C05 C04]");
        } else {
            assert!(out_buf_size_mask.wrapping_add(1) == out_slice.len() && source_pos <= out_buf_size_mask
                && out_buf_size_mask & out_buf_size_mask.wrapping_add(1) == 0, "OBL:arms.transfer_pre_ring_geometry [C05]");
        }
        AM_CALLS.fetch_add(1, Relaxed); AM_POS.store(out_pos, Relaxed); AM_LEN.store(match_len, Relaxed); AM_SRC.store(source_pos, Relaxed);
    }
    fn model_apply_match(out_slice: &mut [u8], out_pos: usize, dist: usize, match_len: usize, out_buf_size_mask: usize) {
        assert!(dist >= 1, "OBL:arms.apply_match_pre_distance_positive [C05]");
        let source_pos = out_pos.wrapping_sub(dist) & out_buf_size_mask;
        model_transfer(out_slice, source_pos, out_pos, match_len, out_buf_size_mask);
    }
    /// init_tree contract model: Some(Jump(..)) or rejection; never panics (its own contract: K-inittree / assumed)
    static IT_CALLS: ::core::sync::atomic::AtomicUsize = ::core::sync::atomic::AtomicUsize::new(0);
    fn model_init_tree(r: &mut DecompressorOxide, l: &mut LocalVars) -> Option<Action> {
        IT_CALLS.fetch_add(1, ::core::sync::atomic::Ordering::Relaxed);
        assert!(r.block_type <= 2, "OBL:arms.init_tree_pre_block_type_is_a_table_index [C05]");
        let k: u8 = kani::any();
        match k % 4 {
            0 => None,
            1 => Some(Action::Jump(BadTotalSymbols)),
            2 => { l.counter = 0; Some(Action::Jump(ReadLitlenDistTablesCodeSize)) }
            _ => { l.counter = 0; Some(Action::Jump(DecodeLitlen)) }
        }
    }

    macro_rules! arm_ctx {
        ($r:ident, $l:ident, $inb:ident, $inl:ident, $ioff:ident, $out:ident, $out0:ident, $outl:ident, $pos:ident, $budget:ident, $flags:ident, $mask:ident, $st:expr) => {
            let mut $r = any_decompressor($st);
            let $l = any_l();
            let $inb: [u8; AIN] = kani::any();
            let $inl: usize = kani::any();
            let $ioff: usize = kani::any();
            kani::assume($inl <= AIN && $ioff <= $inl);
            let mut $out: [u8; AOUT] = kani::any();
            let $out0 = $out;
            let $outl: usize = kani::any();
            let $pos: usize = kani::any();
            let $budget: usize = kani::any();
            let $flags: u32 = kani::any();
            kani::assume($outl <= AOUT && $pos <= $outl);
            let flat = $flags & TINFL_FLAG_USING_NON_WRAPPING_OUTPUT_BUF != 0;
            kani::assume(flat || matches!($outl, 0 | 1 | 2 | 4 | 8 | 16 | 32));
            let $mask: usize = if flat { usize::MAX } else { $outl.saturating_sub(1) };
        };
    }
    /// generic per-arm postcondition: registers stay well formed, output written only inside [pos, max), truthful
    /// starvation / has-more-output statuses.
    fn arm_generic_post(a: &Action, l1: &LocalVars, in1: &InputWrapper, ob1: &OutputBuffer, out0: &[u8; AOUT], pos: usize, budget: usize, outl: usize, flags: u32, in_avail: usize) {
        assert!(inv_l(l1), "OBL:arms.registers_stay_well_formed [C05]");
        let p1 = ob1.position();
        let maxp = core::cmp::min(pos.saturating_add(budget), outl);
        assert!(p1 >= pos && (p1 <= maxp || p1 == pos), "OBL:arms.position_stays_inside_granted_window [C05 C08]");
        let k: usize = kani::any();
        kani::assume(k < AOUT);
        if k < outl && (k < pos || k >= p1) { assert!(ob1.get_ref()[k] == out0[k], "OBL:arms.bytes_outside_written_range_unchanged [C08]"); }
        match a {
            Action::End(TINFLStatus::NeedsMoreInput) => assert!(in1.bytes_left() == 0 && flags & TINFL_FLAG_HAS_MORE_INPUT != 0, "OBL:arms.needs_more_input_only_when_all_input_consumed [C04 C08 C13]"),
            Action::End(TINFLStatus::FailedCannotMakeProgress) => assert!(in1.bytes_left() == 0 && flags & TINFL_FLAG_HAS_MORE_INPUT == 0, "OBL:arms.cannot_make_progress_only_when_input_exhausted_and_no_more_announced [C04 C13]"),
            Action::End(TINFLStatus::HasMoreOutput) => assert!(ob1.bytes_left() == 0, "OBL:arms.has_more_output_only_when_window_full [C08 C13]"),
            _ => {}
        }
    }

    // ---- stored blocks ----
    #[kani::proof]
    #[kani::unwind(10)]
    fn k_arm_raw_header() {
        arm_ctx!(r, l, inb, inl, ioff, out, out0, outl, pos, budget, flags, mask, RawHeader);
        let in_iter = InputWrapper::from_slice(&inb[ioff..inl]);
        let ob = OutputBuffer::from_slice_pos_and_max(&mut out[..outl], pos, budget);
        kani::assume(l.counter <= 4 && (l.num_bits & 7 == 0) && l.num_bits <= 56); // established by BlockTypeNoCompression (pad_to_bytes) + this arm
        let rh0 = r.raw_header;
        let (v0, n0) = bits_view(&l, &inb[ioff..inl]);
        let (a, l1, in1, ob1, st1) = verif_arm_RawHeader(&mut r, l, in_iter, ob, flags, mask, &inb[..inl], RawHeader);
        arm_generic_post(&a, &l1, &in1, &ob1, &out0, pos, budget, outl, flags, inl - ioff);
        if l.counter < 4 {
            match a {
                Action::None => {
                    assert!(l1.counter == l.counter + 1 && r.raw_header[l.counter as usize] as u128 == v0 & 0xFF, "OBL:arms.raw_header_reads_next_byte_of_bit_stream [C03]");
                    let (v1, n1) = bits_view(&l1, in1.as_slice());
                    assert!(n1 + 8 == n0 && v1 == v0 >> 8, "OBL:arms.raw_header_consumes_exactly_8_bits [C03 C06]");
                }
                Action::End(_) => assert!(n0 < 8 && l1.counter == l.counter && r.raw_header == rh0, "OBL:arms.raw_header_starved_changes_nothing [C07]"),
                _ => assert!(false, "OBL:arms.raw_header_only_none_or_end_while_reading [C04]"),
            }
        } else {
            let len = rh0[0] as u32 | (rh0[1] as u32) << 8;
            let nlen = rh0[2] as u32 | (rh0[3] as u32) << 8;
            if len != (!nlen & 0xFFFF) {
                assert!(matches!(a, Action::Jump(BadRawLength)), "OBL:arms.stored_length_check_failure_is_rejected [C04]");
            } else if len == 0 {
                assert!(matches!(a, Action::Jump(BlockDone)), "OBL:arms.empty_stored_block_is_done [C03 C12 C19]");
            } else {
                assert!(l1.counter == len, "OBL:arms.stored_length_taken_from_header [C03]");
                assert!(if l.num_bits != 0 { matches!(a, Action::Jump(RawReadFirstByte)) } else { matches!(a, Action::Jump(RawMemcpy1)) }, "OBL:arms.stored_bytes_in_bit_buffer_are_emitted_first [C03]");
            }
            assert!(in1.bytes_left() == inl - ioff && ob1.position() == pos, "OBL:arms.raw_header_check_consumes_nothing [C06]");
        }
        kani::cover!(matches!(a, Action::Jump(RawMemcpy1)), "COV:arms.raw_header_memcpy");
        kani::cover!(matches!(a, Action::End(_)), "COV:arms.raw_header_starved");
    }

    #[kani::proof]
    #[kani::unwind(10)]
    fn k_arm_raw_memcpy() {
        // RawMemcpy1
        {
            arm_ctx!(r, l, inb, inl, ioff, out, out0, outl, pos, budget, flags, mask, RawMemcpy1);
            let in_iter = InputWrapper::from_slice(&inb[ioff..inl]);
            let ob = OutputBuffer::from_slice_pos_and_max(&mut out[..outl], pos, budget);
            let left = ob.bytes_left();
            let (a, l1, in1, ob1, st1) = verif_arm_RawMemcpy1(&mut r, l, in_iter, ob, flags, mask, &inb[..inl], RawMemcpy1);
            arm_generic_post(&a, &l1, &in1, &ob1, &out0, pos, budget, outl, flags, inl - ioff);
            if l.counter == 0 {
                assert!(matches!(a, Action::Jump(BlockDone)), "OBL:arms.stored_block_complete_is_done_even_when_window_full [C03 C08]");
            } else if left == 0 {
                assert!(matches!(a, Action::End(TINFLStatus::HasMoreOutput)), "OBL:arms.stored_copy_out_of_space_is_has_more_output [C07 C08]");
            } else {
                assert!(matches!(a, Action::Jump(RawMemcpy2)), "OBL:arms.stored_copy_continues [C03]");
            }
            assert!(l1.counter == l.counter && ob1.position() == pos && in1.bytes_left() == inl - ioff, "OBL:arms.raw_memcpy1_is_pure_dispatch [C07]");
        }
        // RawMemcpy2
        {
            arm_ctx!(r, l, inb, inl, ioff, out, out0, outl, pos, budget, flags, mask, RawMemcpy2);
            let in_iter = InputWrapper::from_slice(&inb[ioff..inl]);
            let ob = OutputBuffer::from_slice_pos_and_max(&mut out[..outl], pos, budget);
            let left = ob.bytes_left();
            kani::assume(l.counter != 0 && left != 0 && l.counter <= 65535); // established by RawMemcpy1 / RawHeader
            let (a, l1, in1, ob1, st1) = verif_arm_RawMemcpy2(&mut r, l, in_iter, ob, flags, mask, &inb[..inl], RawMemcpy2);
            arm_generic_post(&a, &l1, &in1, &ob1, &out0, pos, budget, outl, flags, inl - ioff);
            let avail = inl - ioff;
            if avail == 0 {
                assert!(matches!(a, Action::End(_)) && l1.counter == l.counter && ob1.position() == pos, "OBL:arms.stored_copy_starved_changes_nothing [C07 C04]");
            } else {
                let n = core::cmp::min(core::cmp::min(left, avail), l.counter as usize);
                assert!(matches!(a, Action::Jump(RawMemcpy1)) && ob1.position() == pos + n && in1.bytes_left() == avail - n && l1.counter == l.counter - n as u32,
                    "OBL:arms.stored_copy_moves_min_space_input_remaining [C03 C07 C08]");
                let k: usize = kani::any();
                kani::assume(k < n);
                assert!(ob1.get_ref()[pos + k] == inb[ioff + k], "OBL:arms.stored_copy_is_verbatim [C03]");
            }
        }
    }

    #[kani::proof]
    #[kani::unwind(10)]
    fn k_arm_raw_first_byte() {
        // RawReadFirstByte: takes 8 bits from the bit stream into l.dist
        {
            arm_ctx!(r, l, inb, inl, ioff, out, out0, outl, pos, budget, flags, mask, RawReadFirstByte);
            let in_iter = InputWrapper::from_slice(&inb[ioff..inl]);
            let ob = OutputBuffer::from_slice_pos_and_max(&mut out[..outl], pos, budget);
            kani::assume(l.num_bits <= 56);
            let (v0, n0) = bits_view(&l, &inb[ioff..inl]);
            let (a, l1, in1, ob1, st1) = verif_arm_RawReadFirstByte(&mut r, l, in_iter, ob, flags, mask, &inb[..inl], RawReadFirstByte);
            arm_generic_post(&a, &l1, &in1, &ob1, &out0, pos, budget, outl, flags, inl - ioff);
            match a {
                Action::Jump(RawStoreFirstByte) => assert!(n0 >= 8 && l1.dist as u128 == v0 & 0xFF && l1.counter == l.counter, "OBL:arms.raw_first_byte_is_next_8_bits [C03]"),
                Action::End(_) => assert!(n0 < 8 && l1.counter == l.counter, "OBL:arms.raw_first_byte_starved [C07]"),
                _ => assert!(false, "OBL:arms.raw_first_byte_outcomes [C04]"),
            }
        }
        // RawStoreFirstByte
        {
            arm_ctx!(r, l, inb, inl, ioff, out, out0, outl, pos, budget, flags, mask, RawStoreFirstByte);
            let in_iter = InputWrapper::from_slice(&inb[ioff..inl]);
            let ob = OutputBuffer::from_slice_pos_and_max(&mut out[..outl], pos, budget);
            let left = ob.bytes_left();
            kani::assume(l.counter >= 1);
            let (a, l1, in1, ob1, st1) = verif_arm_RawStoreFirstByte(&mut r, l, in_iter, ob, flags, mask, &inb[..inl], RawStoreFirstByte);
            arm_generic_post(&a, &l1, &in1, &ob1, &out0, pos, budget, outl, flags, inl - ioff);
            if left == 0 {
                assert!(matches!(a, Action::End(TINFLStatus::HasMoreOutput)) && l1.counter == l.counter && l1.dist == l.dist, "OBL:arms.raw_store_out_of_space_keeps_pending_byte [C07 C08]");
            } else {
                assert!(ob1.position() == pos + 1 && ob1.get_ref()[pos] == l.dist as u8 && l1.counter == l.counter - 1, "OBL:arms.raw_store_writes_the_pending_byte [C03]");
                assert!(if l1.counter == 0 || l1.num_bits == 0 { matches!(a, Action::Jump(RawMemcpy1)) } else { matches!(a, Action::Jump(RawReadFirstByte)) }, "OBL:arms.raw_store_next_state [C03 C05 C07]");
            }
        }
    }

    // ---- match copy arms (apply_match / transfer behind contract models) ----
    #[kani::proof]
    #[kani::unwind(10)]
    #[kani::stub(transfer, model_transfer)]
    #[kani::stub(apply_match, model_apply_match)]
    fn k_arm_write_len_bytes_to_end() {
        use ::core::sync::atomic::Ordering::Relaxed;
        arm_ctx!(r, l, inb, inl, ioff, out, out0, outl, pos, budget, flags, mask, WriteLenBytesToEnd);
        let in_iter = InputWrapper::from_slice(&inb[ioff..inl]);
        let ob = OutputBuffer::from_slice_pos_and_max(&mut out[..outl], pos, budget);
        let left = ob.bytes_left();
        // what HuffDecodeOuterLoop2 established before deferring here: a pending copy of 1..=258 bytes at distance
        // 1..=32768 that does not reach beyond the buffer; the output position may have been changed by the caller
        // between calls (any start position), which is exactly what C05 quantifies over.
        kani::assume(l.counter >= 1 && l.counter <= 258 && l.dist >= 1 && l.dist <= 32768);
        let flat = flags & TINFL_FLAG_USING_NON_WRAPPING_OUTPUT_BUF != 0;
        let unreachable_source = (flat && l.dist as usize > pos) || l.dist as usize > outl;
        let (a, l1, in1, ob1, st1) = verif_arm_WriteLenBytesToEnd(&mut r, l, in_iter, ob, flags, mask, &inb[..inl], WriteLenBytesToEnd);
        arm_generic_post(&a, &l1, &in1, &ob1, &out0, pos, budget, outl, flags, inl - ioff);
        if unreachable_source {
            assert!(matches!(a, Action::Jump(DistanceOutOfBounds)) && AM_CALLS.load(Relaxed) == 0 && ob1.position() == pos, "OBL:arms.resumed_match_with_unreachable_source_is_rejected_not_panicking [C05 C04]");
        } else if left == 0 {
            assert!(matches!(a, Action::End(TINFLStatus::HasMoreOutput)) && l1.counter == l.counter && l1.dist == l.dist && AM_CALLS.load(Relaxed) == 0, "OBL:arms.partial_match_out_of_space_keeps_remaining_copy [C07 C08]");
        } else {
            let n = core::cmp::min(left, l.counter as usize);
            assert!(AM_CALLS.load(Relaxed) == 1 && AM_POS.load(Relaxed) == pos && AM_LEN.load(Relaxed) == n && AM_SRC.load(Relaxed) == pos.wrapping_sub(l.dist as usize) & mask,
                "OBL:arms.partial_match_copies_min_space_remaining_from_distance_back [C03 C07]");
            assert!(ob1.position() == pos + n && l1.counter == l.counter - n as u32 && l1.dist == l.dist, "OBL:arms.partial_match_bookkeeping [C07 C08]");
            assert!(if l1.counter == 0 { matches!(a, Action::Jump(DecodeLitlen)) } else { matches!(a, Action::None) }, "OBL:arms.partial_match_next_state [C07]");
        }
        assert!(in1.bytes_left() == inl - ioff, "OBL:arms.partial_match_consumes_no_input [C06]");
    }

    #[kani::proof]
    #[kani::unwind(10)]
    #[kani::stub(transfer, model_transfer)]
    #[kani::stub(apply_match, model_apply_match)]
    fn k_arm_huff_decode_outer_loop2() {
        use ::core::sync::atomic::Ordering::Relaxed;
        arm_ctx!(r, l, inb, inl, ioff, out, out0, outl, pos, budget, flags, mask, HuffDecodeOuterLoop2);
        let in_iter = InputWrapper::from_slice(&inb[ioff..inl]);
        let ob = OutputBuffer::from_slice_pos_and_max(&mut out[..outl], pos, budget);
        let left = ob.bytes_left();
        kani::assume(l.counter >= 3 && l.counter <= 258 && l.dist >= 1 && l.dist <= 32768); // K-tables + ReadExtraBits arms
        let (a, l1, in1, ob1, st1) = verif_arm_HuffDecodeOuterLoop2(&mut r, l, in_iter, ob, flags, mask, &inb[..inl], HuffDecodeOuterLoop2);
        arm_generic_post(&a, &l1, &in1, &ob1, &out0, pos, budget, outl, flags, inl - ioff);
        let flat = flags & TINFL_FLAG_USING_NON_WRAPPING_OUTPUT_BUF != 0;
        if (flat && l.dist as usize > pos) || l.dist as usize > outl {
            assert!(matches!(a, Action::Jump(DistanceOutOfBounds)) && AM_CALLS.load(Relaxed) == 0 && ob1.position() == pos, "OBL:arms.distance_before_start_or_beyond_buffer_is_rejected [C04 C05]");
        } else {
            match a {
                Action::Jump(DecodeLitlen) => {
                    assert!(AM_CALLS.load(Relaxed) == 1 && AM_POS.load(Relaxed) == pos && AM_LEN.load(Relaxed) == l.counter as usize && ob1.position() == pos + l.counter as usize,
                        "OBL:arms.whole_match_copied_when_it_fits [C03 C08]");
                    assert!(l.counter as usize <= left, "OBL:arms.whole_match_only_when_it_fits_the_granted_window [C08]");
                }
                Action::Jump(WriteLenBytesToEnd) => assert!(AM_CALLS.load(Relaxed) == 0 && ob1.position() == pos && l1.counter == l.counter && l1.dist == l.dist, "OBL:arms.match_deferred_untouched_to_partial_copy [C07]"),
                _ => assert!(false, "OBL:arms.match_outcomes [C04]"),
            }
        }
        kani::cover!(matches!(a, Action::Jump(DecodeLitlen)), "COV:arms.whole_match");
        kani::cover!(matches!(a, Action::Jump(WriteLenBytesToEnd)), "COV:arms.deferred_match");
    }

    // ---- symbol classification arms against the RFC ----
    #[kani::proof]
    #[kani::unwind(10)]
    fn k_arm_symbols() {
        // HuffDecodeOuterLoop1
        {
            arm_ctx!(r, l, inb, inl, ioff, out, out0, outl, pos, budget, flags, mask, HuffDecodeOuterLoop1);
            let in_iter = InputWrapper::from_slice(&inb[ioff..inl]);
            let ob = OutputBuffer::from_slice_pos_and_max(&mut out[..outl], pos, budget);
            kani::assume(l.counter & 511 >= 256); // WriteSymbol / DecodeLitlen only come here with a non-literal
            let (a, l1, in1, ob1, st1) = verif_arm_HuffDecodeOuterLoop1(&mut r, l, in_iter, ob, flags, mask, &inb[..inl], HuffDecodeOuterLoop1);
            arm_generic_post(&a, &l1, &in1, &ob1, &out0, pos, budget, outl, flags, inl - ioff);
            let sym = l.counter & 511;
            if sym == 256 { assert!(matches!(a, Action::Jump(BlockDone)), "OBL:arms.symbol_256_ends_the_block [C03]"); }
            else if sym > 285 { assert!(matches!(a, Action::Jump(InvalidLitlen)), "OBL:arms.undefined_length_symbols_286_287_rejected [C04]"); }
            else {
                let i = (sym - 257) as usize;
                assert!(l1.counter == RFC_LEN_BASE[i] as u32 && l1.num_extra == RFC_LEN_EXTRA[i], "OBL:arms.length_symbol_decodes_per_rfc [C03]");
                assert!(if RFC_LEN_EXTRA[i] != 0 { matches!(a, Action::Jump(ReadExtraBitsLitlen)) } else { matches!(a, Action::Jump(DecodeDistance)) }, "OBL:arms.length_symbol_next_state [C03]");
            }
        }
        // WriteSymbol
        {
            arm_ctx!(r, l, inb, inl, ioff, out, out0, outl, pos, budget, flags, mask, WriteSymbol);
            let in_iter = InputWrapper::from_slice(&inb[ioff..inl]);
            let ob = OutputBuffer::from_slice_pos_and_max(&mut out[..outl], pos, budget);
            let left = ob.bytes_left();
            let (a, l1, in1, ob1, st1) = verif_arm_WriteSymbol(&mut r, l, in_iter, ob, flags, mask, &inb[..inl], WriteSymbol);
            arm_generic_post(&a, &l1, &in1, &ob1, &out0, pos, budget, outl, flags, inl - ioff);
            if l.counter >= 256 { assert!(matches!(a, Action::Jump(HuffDecodeOuterLoop1)) && ob1.position() == pos, "OBL:arms.non_literal_goes_to_length_decoding [C03]"); }
            else if left > 0 { assert!(matches!(a, Action::Jump(DecodeLitlen)) && ob1.position() == pos + 1 && ob1.get_ref()[pos] == l.counter as u8, "OBL:arms.literal_written [C03 C08]"); }
            else { assert!(matches!(a, Action::End(TINFLStatus::HasMoreOutput)) && l1.counter == l.counter, "OBL:arms.literal_out_of_space_kept_pending [C07 C08]"); }
        }
        // ReadExtraBitsLitlen / ReadExtraBitsDistance
        {
            arm_ctx!(r, l, inb, inl, ioff, out, out0, outl, pos, budget, flags, mask, ReadExtraBitsLitlen);
            let in_iter = InputWrapper::from_slice(&inb[ioff..inl]);
            let ob = OutputBuffer::from_slice_pos_and_max(&mut out[..outl], pos, budget);
            kani::assume(l.num_extra >= 1 && l.num_extra <= 13 && l.num_bits <= 56 && l.counter <= 258 && l.dist <= 24577);
            let (v0, n0) = bits_view(&l, &inb[ioff..inl]);
            let which: bool = kani::any();
            let (a, l1, in1, ob1, st1) = if which { verif_arm_ReadExtraBitsLitlen(&mut r, l, in_iter, ob, flags, mask, &inb[..inl], ReadExtraBitsLitlen) }
                else { verif_arm_ReadExtraBitsDistance(&mut r, l, in_iter, ob, flags, mask, &inb[..inl], ReadExtraBitsDistance) };
            arm_generic_post(&a, &l1, &in1, &ob1, &out0, pos, budget, outl, flags, inl - ioff);
            let ne = l.num_extra as u32;
            match a {
                Action::Jump(DecodeDistance) => assert!(which && n0 >= ne && l1.counter as u128 == l.counter as u128 + (v0 & ((1u128 << ne) - 1)) && l1.dist == l.dist, "OBL:arms.length_extra_bits_added_lsb_first [C03]"),
                Action::Jump(HuffDecodeOuterLoop2) => assert!(!which && n0 >= ne && l1.dist as u128 == l.dist as u128 + (v0 & ((1u128 << ne) - 1)) && l1.counter == l.counter, "OBL:arms.distance_extra_bits_added_lsb_first [C03]"),
                Action::End(_) => assert!(n0 < ne && l1.counter == l.counter && l1.dist == l.dist && l1.num_extra == l.num_extra, "OBL:arms.extra_bits_starved_keeps_registers [C07]"),
                _ => assert!(false, "OBL:arms.extra_bits_outcomes [C04]"),
            }
            if !matches!(a, Action::End(_)) {
                let (v1, n1) = bits_view(&l1, in1.as_slice());
                assert!(n1 + ne == n0 && v1 == v0 >> ne, "OBL:arms.extra_bits_consume_exactly_num_extra_bits [C03 C06]");
            } else {
                let (v1, n1) = bits_view(&l1, in1.as_slice());
                assert!(n1 == n0 && v1 == v0, "OBL:arms.starved_reader_leaves_unread_bit_stream_unchanged [C07]");
            }
        }
    }

    // ---- block header, table sizes, zlib header, end of stream ----
    #[kani::proof]
    #[kani::unwind(10)]
    #[kani::stub(init_tree, model_init_tree)]
    fn k_arm_block_header() {
        // ReadBlockHeader
        {
            arm_ctx!(r, l, inb, inl, ioff, out, out0, outl, pos, budget, flags, mask, ReadBlockHeader);
            let in_iter = InputWrapper::from_slice(&inb[ioff..inl]);
            let ob = OutputBuffer::from_slice_pos_and_max(&mut out[..outl], pos, budget);
            kani::assume(l.num_bits <= 56);
            let (v0, n0) = bits_view(&l, &inb[ioff..inl]);
            let (a, l1, in1, ob1, st1) = verif_arm_ReadBlockHeader(&mut r, l, in_iter, ob, flags, mask, &inb[..inl], ReadBlockHeader);
            arm_generic_post(&a, &l1, &in1, &ob1, &out0, pos, budget, outl, flags, inl - ioff);
            if n0 < 3 {
                assert!(matches!(a, Action::End(_)), "OBL:arms.block_header_starved [C04 C07]");
            } else {
                let bfinal = (v0 & 1) as u8;
                let btype = ((v0 >> 1) & 3) as u8;
                assert!(r.finish == bfinal, "OBL:arms.bfinal_bit_recorded [C03 C06]");
                match btype {
                    0 => assert!(matches!(a, Action::Jump(BlockTypeNoCompression)), "OBL:arms.block_type_0_is_stored [C03]"),
                    1 => assert!(IT_CALLS.load(::core::sync::atomic::Ordering::Relaxed) == 1 && r.table_sizes[0] == 288 && r.table_sizes[1] == 32 && r.block_type == 1, "OBL:arms.block_type_1_builds_fixed_tables [C03]"),
                    2 => assert!(matches!(a, Action::Jump(ReadTableSizes)) && l1.counter == 0, "OBL:arms.block_type_2_reads_table_sizes [C03]"),
                    _ => assert!(matches!(a, Action::Jump(BlockTypeUnexpected)), "OBL:arms.reserved_block_type_3_rejected [C04]"),
                }
                let (v1, n1) = bits_view(&l1, in1.as_slice());
                assert!(n1 + 3 == n0 && v1 == v0 >> 3, "OBL:arms.block_header_consumes_exactly_3_bits [C03 C06]");
            }
        }
        // ReadTableSizes: limits 286 / 30
        {
            arm_ctx!(r, l, inb, inl, ioff, out, out0, outl, pos, budget, flags, mask, ReadTableSizes);
            let in_iter = InputWrapper::from_slice(&inb[ioff..inl]);
            let ob = OutputBuffer::from_slice_pos_and_max(&mut out[..outl], pos, budget);
            kani::assume(l.counter <= 3 && l.num_bits <= 56);
            let (v0, n0) = bits_view(&l, &inb[ioff..inl]);
            let ts0 = r.table_sizes;
            let (a, l1, in1, ob1, st1) = verif_arm_ReadTableSizes(&mut r, l, in_iter, ob, flags, mask, &inb[..inl], ReadTableSizes);
            arm_generic_post(&a, &l1, &in1, &ob1, &out0, pos, budget, outl, flags, inl - ioff);
            if l.counter < 3 {
                let nb = [5u32, 5, 4][l.counter as usize];
                let base = [257u32, 1, 4][l.counter as usize];
                if n0 >= nb {
                    assert!(matches!(a, Action::None) && r.table_sizes[l.counter as usize] as u128 == base as u128 + (v0 & ((1u128 << nb) - 1)) && l1.counter == l.counter + 1, "OBL:arms.hlit_hdist_hclen_fields_per_rfc [C03]");
                } else {
                    assert!(matches!(a, Action::End(_)) && r.table_sizes == ts0 && l1.counter == l.counter, "OBL:arms.table_sizes_starved [C07]");
                }
            } else {
                let ok = ts0[0] <= 286 && ts0[1] <= 30;
                assert!(if ok { matches!(a, Action::Jump(ReadHufflenTableCodeSize)) } else { matches!(a, Action::Jump(BadDistOrLiteralTableLength)) }, "OBL:arms.more_than_286_litlen_or_30_dist_codes_rejected [C04]");
                let k: usize = kani::any();
                kani::assume(k < 19);
                assert!(r.code_size_huffman[k] == 0 && l1.counter == 0, "OBL:arms.code_length_code_sizes_cleared [C03 C18]");
            }
        }
    }

    #[kani::proof]
    #[kani::unwind(10)]
    fn k_arm_start_and_zlib_header() {
        // Start: re-initialises every register the next stream depends on (C18)
        {
            arm_ctx!(r, l, inb, inl, ioff, out, out0, outl, pos, budget, flags, mask, Start);
            let in_iter = InputWrapper::from_slice(&inb[ioff..inl]);
            let ob = OutputBuffer::from_slice_pos_and_max(&mut out[..outl], pos, budget);
            let (a, l1, in1, ob1, st1) = verif_arm_Start(&mut r, l, in_iter, ob, flags, mask, &inb[..inl], Start);
            arm_generic_post(&a, &l1, &in1, &ob1, &out0, pos, budget, outl, flags, inl - ioff);
            assert!(l1.bit_buf == 0 && l1.num_bits == 0 && l1.dist == 0 && l1.counter == 0 && l1.num_extra == 0, "OBL:arms.start_clears_registers [C18]");
            assert!(r.z_header0 == 0 && r.z_header1 == 0 && r.z_adler32 == 1 && r.check_adler32 == 1, "OBL:arms.start_resets_header_fields_and_checksums [C18 C16]");
            assert!(if flags & TINFL_FLAG_PARSE_ZLIB_HEADER != 0 { matches!(a, Action::Jump(ReadZlibCmf)) } else { matches!(a, Action::Jump(ReadBlockHeader)) }, "OBL:arms.start_parses_zlib_header_iff_requested [C09]");
            assert!(in1.bytes_left() == inl - ioff && ob1.position() == pos, "OBL:arms.start_consumes_nothing [C06]");
        }
        // ReadZlibCmf / ReadZlibFlg
        {
            arm_ctx!(r, l, inb, inl, ioff, out, out0, outl, pos, budget, flags, mask, ReadZlibFlg);
            let in_iter = InputWrapper::from_slice(&inb[ioff..inl]);
            let ob = OutputBuffer::from_slice_pos_and_max(&mut out[..outl], pos, budget);
            kani::assume(r.z_header0 < 256);
            let cmf = r.z_header0;
            let (a, l1, in1, ob1, st1) = verif_arm_ReadZlibFlg(&mut r, l, in_iter, ob, flags, mask, &inb[..inl], ReadZlibFlg);
            arm_generic_post(&a, &l1, &in1, &ob1, &out0, pos, budget, outl, flags, inl - ioff);
            if inl == ioff { assert!(matches!(a, Action::End(_)), "OBL:arms.zlib_flg_starved [C04]"); }
            else {
                let flg = inb[ioff] as u32;
                let flat = flags & TINFL_FLAG_USING_NON_WRAPPING_OUTPUT_BUF != 0;
                let fits = flat || (cmf >> 4) > 7 || mask + 1 >= (1usize << ((cmf >> 4) + 8));
                let ok = rfc_zlib_hdr_ok(cmf, flg) && fits;
                assert!(r.z_header1 == flg && in1.bytes_left() == inl - ioff - 1, "OBL:arms.zlib_flg_byte_recorded [C09]");
                assert!(if ok { matches!(a, Action::Jump(ReadBlockHeader)) } else { matches!(a, Action::Jump(BadZlibHeader)) }, "OBL:arms.zlib_header_accepted_iff_valid_per_rfc1950_and_window_fits [C04 C09]");
            }
        }
        {
            arm_ctx!(r, l, inb, inl, ioff, out, out0, outl, pos, budget, flags, mask, ReadZlibCmf);
            let in_iter = InputWrapper::from_slice(&inb[ioff..inl]);
            let ob = OutputBuffer::from_slice_pos_and_max(&mut out[..outl], pos, budget);
            let (a, l1, in1, ob1, st1) = verif_arm_ReadZlibCmf(&mut r, l, in_iter, ob, flags, mask, &inb[..inl], ReadZlibCmf);
            arm_generic_post(&a, &l1, &in1, &ob1, &out0, pos, budget, outl, flags, inl - ioff);
            if inl == ioff { assert!(matches!(a, Action::End(_)), "OBL:arms.zlib_cmf_starved [C04]"); }
            else { assert!(matches!(a, Action::Jump(ReadZlibFlg)) && r.z_header0 == inb[ioff] as u32 && in1.bytes_left() == inl - ioff - 1, "OBL:arms.zlib_cmf_byte_recorded [C09]"); }
        }
    }

    #[kani::proof]
    #[kani::unwind(10)]
    fn k_arm_block_done_and_adler() {
        // BlockDone
        {
            arm_ctx!(r, l, inb, inl, ioff, out, out0, outl, pos, budget, flags, mask, BlockDone);
            let in_iter = InputWrapper::from_slice(&inb[ioff..inl]);
            let ob = OutputBuffer::from_slice_pos_and_max(&mut out[..outl], pos, budget);
            kani::assume(l.num_bits <= 56);
            // ASSUMED history invariant (DESIGN.md §4 C06): every whole byte still in the bit buffer was read during
            // the current call, so the end-of-stream rewind is never clamped (the real code debug_asserts it)
            kani::assume(r.finish == 0 || (l.num_bits / 8) as usize <= ioff);
            let fin = r.finish;
            let (a, l1, in1, ob1, st1) = verif_arm_BlockDone(&mut r, l, in_iter, ob, flags, mask, &inb[..inl], BlockDone);
            assert!(inv_l(&l1) && ob1.position() == pos, "OBL:arms.block_done_writes_nothing [C08]");
            if fin == 0 {
                assert!(matches!(a, Action::Jump(ReadBlockHeader)) && in1.bytes_left() == inl - ioff && l1.num_bits == l.num_bits, "OBL:arms.non_final_block_continues_with_next_header [C03]");
            } else {
                // final block: drop the padding bits, give whole unread bytes back to the input
                let whole = (l.num_bits / 8) as usize;
                let back = core::cmp::min(whole, ioff);
                assert!(in1.bytes_left() == inl - ioff + back, "OBL:arms.end_of_stream_returns_whole_unread_bytes_to_input [C06]");
                assert!(l1.num_bits as usize == (l.num_bits as usize / 8 - back) * 8, "OBL:arms.end_of_stream_discards_padding_bits [C06]");
                if whole <= ioff { assert!(l1.num_bits == 0 && l1.bit_buf == 0, "OBL:arms.end_of_stream_bit_buffer_empty_when_rewind_unclamped [C06]"); }
                assert!(if flags & TINFL_FLAG_PARSE_ZLIB_HEADER != 0 { matches!(a, Action::Jump(ReadAdler32)) && l1.counter == 0 } else { matches!(a, Action::Jump(DoneForever)) }, "OBL:arms.zlib_stream_reads_trailer_raw_stream_is_done [C09 C06]");
            }
        }
        // ReadAdler32: 4 bytes, big-endian, from the bit buffer first and then from the input
        {
            arm_ctx!(r, l, inb, inl, ioff, out, out0, outl, pos, budget, flags, mask, ReadAdler32);
            let in_iter = InputWrapper::from_slice(&inb[ioff..inl]);
            let ob = OutputBuffer::from_slice_pos_and_max(&mut out[..outl], pos, budget);
            kani::assume(l.counter <= 4 && l.num_bits & 7 == 0 && l.num_bits <= 56);
            let (v0, n0) = bits_view(&l, &inb[ioff..inl]);
            let z0 = r.z_adler32;
            let (a, l1, in1, ob1, st1) = verif_arm_ReadAdler32(&mut r, l, in_iter, ob, flags, mask, &inb[..inl], ReadAdler32);
            arm_generic_post(&a, &l1, &in1, &ob1, &out0, pos, budget, outl, flags, inl - ioff);
            if l.counter >= 4 {
                assert!(matches!(a, Action::Jump(DoneForever)) && r.z_adler32 == z0 && in1.bytes_left() == inl - ioff, "OBL:arms.trailer_complete_after_4_bytes_nothing_more_consumed [C06 C09]");
            } else if n0 >= 8 {
                assert!(matches!(a, Action::None) && r.z_adler32 as u128 == ((z0 as u128) << 8 & 0xFFFF_FFFF) | (v0 & 0xFF) && l1.counter == l.counter + 1, "OBL:arms.trailer_bytes_assembled_big_endian [C09]");
                let (v1, n1) = bits_view(&l1, in1.as_slice());
                assert!(n1 + 8 == n0, "OBL:arms.trailer_byte_consumes_exactly_8_bits [C06]");
            } else {
                assert!(matches!(a, Action::End(_)) && r.z_adler32 == z0 && l1.counter == l.counter, "OBL:arms.trailer_starved_keeps_partial_value [C07]");
            }
        }
    }


    // ---- arms that decode a Huffman symbol: decode_huffman_code / HuffmanTable::lookup / decompress_fast behind models ----
    /// decode_huffman_code contract model: either starved (returns end_of_input having consumed every offered byte)
    /// or yields a symbol in 0..=511 with a 1..=15 bit code removed from the bit stream (its own contract rests on
    /// the table invariant of init_tree: assumed, DESIGN.md §3.1).
    fn model_dhc<F>(r: &mut DecompressorOxide, l: &mut LocalVars, table: usize, flags: u32, in_iter: &mut InputWrapper, f: F) -> Action
    where F: FnOnce(&mut DecompressorOxide, &mut LocalVars, i32) -> Action {
        assert!(table < 3, "OBL:arms.decode_symbol_pre_table_index [C05]");
        assert!(l.num_bits <= 56, "OBL:arms.decode_symbol_pre_room_in_bit_buffer [C05]");
        let starved: bool = kani::any();
        if starved {
            kani::assume(in_iter.bytes_left() < 2);
            if let Some(b) = in_iter.read_byte() { l.bit_buf |= (b as BitBuffer) << l.num_bits; l.num_bits += 8; }
            kani::assume(l.num_bits < 15);
            return end_of_input(flags);
        }
        if l.num_bits < 15 {
            let mut k = 0;
            while k < 2 { if let Some(b) = in_iter.read_byte() { l.bit_buf |= (b as BitBuffer) << l.num_bits; l.num_bits += 8; } k += 1; }
        }
        let code_len: u32 = kani::any();
        let symbol: i32 = kani::any();
        kani::assume(code_len >= 1 && code_len <= 15 && code_len <= l.num_bits && symbol >= 0 && symbol <= 511);
        l.bit_buf >>= code_len;
        l.num_bits -= code_len;
        f(r, l, symbol)
    }
    /// HuffmanTable::lookup contract model (fast path entries carry the length in bits 9.., symbol in the low 9 bits;
    /// tree path returns a bare symbol): symbol part 0..=511 after masking, code length 1..=15.
    static LK_CALLS: ::core::sync::atomic::AtomicUsize = ::core::sync::atomic::AtomicUsize::new(0);
    static LK_LIMIT: ::core::sync::atomic::AtomicUsize = ::core::sync::atomic::AtomicUsize::new(usize::MAX);
    static LK_LAST_SYM: ::core::sync::atomic::AtomicUsize = ::core::sync::atomic::AtomicUsize::new(usize::MAX);   // symbol of the most recent lookup
    static LK_LAST_TABLE: ::core::sync::atomic::AtomicUsize = ::core::sync::atomic::AtomicUsize::new(0);          // address of the table it was made in
    fn model_lookup(this: &HuffmanTable, bit_buf: BitBuffer) -> (i32, u32) {
        let n = LK_CALLS.fetch_add(1, ::core::sync::atomic::Ordering::Relaxed);
        let code_len: u32 = kani::any();
        let sym: i32 = kani::any();
        kani::assume(code_len >= 1 && code_len <= 15 && sym >= 0 && sym <= 511);
        // bounded stand-in: after LK_LIMIT symbols the stream says end-of-block
        let sym = if n >= LK_LIMIT.load(::core::sync::atomic::Ordering::Relaxed) { 256 } else { sym };
        LK_LAST_SYM.store(sym as usize, ::core::sync::atomic::Ordering::Relaxed);
        LK_LAST_TABLE.store(this as *const HuffmanTable as usize, ::core::sync::atomic::Ordering::Relaxed);
        let with_len: bool = kani::any();
        (if with_len { sym | ((code_len as i32) << 9) } else { sym }, code_len)
    }
    static DF_CALLS: ::core::sync::atomic::AtomicUsize = ::core::sync::atomic::AtomicUsize::new(0);
    /// decompress_fast contract model: returns (Done, DecodeLitlen | BlockDone) or (Failed, a failure state)
    fn model_decompress_fast(r: &mut DecompressorOxide, in_iter: &mut InputWrapper, out_buf: &mut OutputBuffer, flags: u32, local_vars: &mut LocalVars, mask: usize) -> (TINFLStatus, State) {
        DF_CALLS.fetch_add(1, ::core::sync::atomic::Ordering::Relaxed);
        assert!(out_buf.bytes_left() >= 259 && in_iter.bytes_left() >= 14, "OBL:arms.fast_loop_entered_only_with_259_bytes_of_space_and_14_of_input [C05 C08]");
        let k: u8 = kani::any();
        match k % 5 {
            0 => (TINFLStatus::Done, DecodeLitlen),
            1 => (TINFLStatus::Done, BlockDone),
            2 => (TINFLStatus::Failed, InvalidLitlen),
            3 => (TINFLStatus::Failed, InvalidDist),
            _ => (TINFLStatus::Failed, DistanceOutOfBounds),
        }
    }

    #[kani::proof]
    #[kani::unwind(10)]
    #[kani::stub(decode_huffman_code, model_dhc)]
    #[kani::stub(HuffmanTable::lookup, model_lookup)]
    #[kani::stub(decompress_fast, model_decompress_fast)]
    fn k_arm_decode_litlen() {
        const BIG: usize = 300;
        let mut r = any_decompressor(DecodeLitlen);
        let l = any_l();
        kani::assume(l.num_bits <= 56);
        let inb: [u8; 16] = kani::any();
        let inl: usize = kani::any();
        kani::assume(inl <= 16);
        let mut out = [0u8; BIG];
        let outl: usize = kani::any();
        let pos: usize = kani::any();
        let budget: usize = kani::any();
        let flags: u32 = kani::any();
        kani::assume(outl <= BIG && pos <= outl);
        let flat = flags & TINFL_FLAG_USING_NON_WRAPPING_OUTPUT_BUF != 0;
        kani::assume(flat || matches!(outl, 0 | 1 | 2 | 4 | 8 | 16 | 32 | 64 | 128 | 256));
        let mask: usize = if flat { usize::MAX } else { outl.saturating_sub(1) };
        let in_iter = InputWrapper::from_slice(&inb[..inl]);
        let ob = OutputBuffer::from_slice_pos_and_max(&mut out[..outl], pos, budget);
        let left = ob.bytes_left();
        let (a, l1, in1, ob1, st1) = verif_arm_DecodeLitlen(&mut r, l, in_iter, ob, flags, mask, &inb[..inl], DecodeLitlen);
        assert!(inv_l(&l1), "OBL:arms.decode_litlen_registers_well_formed [C05]");
        let p1 = ob1.position();
        assert!(p1 >= pos && p1 - pos <= left && p1 - pos <= 2, "OBL:arms.decode_litlen_writes_at_most_two_literals_inside_window [C05 C08]");
        let df = DF_CALLS.load(::core::sync::atomic::Ordering::Relaxed);
        if inl < 4 || left < 2 {
            assert!(df == 0 && p1 == pos, "OBL:arms.decode_litlen_slow_tier_when_input_or_space_short [C07]");
            match a {
                Action::Jump(WriteSymbol) => assert!(l1.counter <= 511, "OBL:arms.decode_litlen_slow_tier_hands_symbol_to_write_symbol [C03]"),
                Action::End(_) => {}
                _ => assert!(false, "OBL:arms.decode_litlen_slow_tier_outcomes [C04]"),
            }
        } else if left >= 259 && inl >= 14 {
            assert!(df == 1, "OBL:arms.decode_litlen_fast_tier_selected [C07]");
            match a {
                Action::Jump(s) => assert!(st1 == s && (s == DecodeLitlen || s == BlockDone), "OBL:arms.fast_tier_done_continues_in_reported_state [C03]"),
                Action::End(TINFLStatus::Failed) => assert!(is_failure_state(st1), "OBL:arms.fast_tier_failure_state_is_recorded_so_failure_is_sticky [C04 C05]"),
                _ => assert!(false, "OBL:arms.fast_tier_outcomes [C04]"),
            }
        } else {
            assert!(df == 0, "OBL:arms.decode_litlen_middle_tier [C07]");
            match a {
                Action::None => assert!(p1 == pos + 2, "OBL:arms.two_literals_written [C03]"),
                Action::Jump(HuffDecodeOuterLoop1) => assert!(l1.counter & 256 != 0 && p1 <= pos + 1, "OBL:arms.non_literal_handed_to_length_decoding [C03]"),
                _ => assert!(false, "OBL:arms.decode_litlen_middle_tier_outcomes [C04]"),
            }
        }
        assert!(in1.bytes_left() <= inl, "OBL:arms.decode_litlen_consumes_only_offered_input [C05]");
        kani::cover!(df == 1, "COV:arms.fast_tier");
        kani::cover!(matches!(a, Action::None), "COV:arms.two_literals");
    }

    #[kani::proof]
    #[kani::unwind(10)]
    #[kani::stub(decode_huffman_code, model_dhc)]
    fn k_arm_decode_distance() {
        arm_ctx!(r, l, inb, inl, ioff, out, out0, outl, pos, budget, flags, mask, DecodeDistance);
        let in_iter = InputWrapper::from_slice(&inb[ioff..inl]);
        let ob = OutputBuffer::from_slice_pos_and_max(&mut out[..outl], pos, budget);
        kani::assume(l.num_bits <= 56);
        let (a, l1, in1, ob1, st1) = verif_arm_DecodeDistance(&mut r, l, in_iter, ob, flags, mask, &inb[..inl], DecodeDistance);
        arm_generic_post(&a, &l1, &in1, &ob1, &out0, pos, budget, outl, flags, inl - ioff);
        match a {
            Action::Jump(InvalidDist) => {}
            Action::Jump(ReadExtraBitsDistance) | Action::Jump(HuffDecodeOuterLoop2) => {
                // the symbol is not observable directly; the registers must be an RFC (base, extra) pair
                let k: usize = kani::any();
                kani::assume(k < 30 && RFC_DIST_BASE[k] as u32 == l1.dist);
                assert!(l1.num_extra == RFC_DIST_EXTRA[k], "OBL:arms.distance_symbol_decodes_per_rfc [C03]");
                assert!(matches!(a, Action::Jump(ReadExtraBitsDistance)) == (l1.num_extra != 0), "OBL:arms.distance_symbol_next_state [C03]");
            }
            Action::End(_) => assert!(l1.counter == l.counter, "OBL:arms.decode_distance_starved_keeps_length [C07]"),
            _ => assert!(false, "OBL:arms.decode_distance_outcomes [C04]"),
        }
        assert!(l1.counter == l.counter && ob1.position() == pos, "OBL:arms.decode_distance_keeps_length_and_writes_nothing [C07 C08]");
        if let Action::Jump(HuffDecodeOuterLoop2) | Action::Jump(ReadExtraBitsDistance) = a {
            assert!(is_rfc_dist_base(l1.dist), "OBL:arms.accepted_distance_symbol_is_one_of_the_30_defined [C04]");
        }
    }

    #[kani::proof]
    #[kani::unwind(10)]
    #[kani::stub(decode_huffman_code, model_dhc)]
    #[kani::stub(init_tree, model_init_tree)]
    fn k_arm_code_lengths_hufflen() {
        // ReadHufflenTableCodeSize
        {
            arm_ctx!(r, l, inb, inl, ioff, out, out0, outl, pos, budget, flags, mask, ReadHufflenTableCodeSize);
            let in_iter = InputWrapper::from_slice(&inb[ioff..inl]);
            let ob = OutputBuffer::from_slice_pos_and_max(&mut out[..outl], pos, budget);
            kani::assume(l.num_bits <= 56 && r.table_sizes[HUFFLEN_TABLE] >= 4 && r.table_sizes[HUFFLEN_TABLE] <= 19 && l.counter <= r.table_sizes[HUFFLEN_TABLE] as u32 && r.block_type == 2);
            let (v0, n0) = bits_view(&l, &inb[ioff..inl]);
            let hclen = r.table_sizes[HUFFLEN_TABLE];
            let (a, l1, in1, ob1, st1) = verif_arm_ReadHufflenTableCodeSize(&mut r, l, in_iter, ob, flags, mask, &inb[..inl], ReadHufflenTableCodeSize);
            arm_generic_post(&a, &l1, &in1, &ob1, &out0, pos, budget, outl, flags, inl - ioff);
            if l.counter < hclen as u32 {
                if n0 >= 3 {
                    assert!(matches!(a, Action::None) && r.code_size_huffman[RFC_CL_ORDER[l.counter as usize] as usize] as u128 == v0 & 7 && l1.counter == l.counter + 1, "OBL:arms.code_length_code_lengths_stored_in_rfc_order [C03]");
                } else { assert!(matches!(a, Action::End(_)) && l1.counter == l.counter, "OBL:arms.hufflen_starved [C07]"); }
            } else {
                assert!(r.table_sizes[HUFFLEN_TABLE] == 19 && IT_CALLS.load(::core::sync::atomic::Ordering::Relaxed) == 1, "OBL:arms.code_length_table_built_over_all_19_symbols [C03]");
            }
        }
    }
    #[kani::proof]
    #[kani::unwind(10)]
    #[kani::stub(decode_huffman_code, model_dhc)]
    #[kani::stub(init_tree, model_init_tree)]
    fn k_arm_code_lengths_litlen_dist() {
        // ReadLitlenDistTablesCodeSize
        {
            arm_ctx!(r, l, inb, inl, ioff, out, out0, outl, pos, budget, flags, mask, ReadLitlenDistTablesCodeSize);
            let in_iter = InputWrapper::from_slice(&inb[ioff..inl]);
            let ob = OutputBuffer::from_slice_pos_and_max(&mut out[..outl], pos, budget);
            // established by ReadTableSizes (limits) and by this arm / ReadExtraBitsCodeSize (counter <= total + 137)
            kani::assume(l.num_bits <= 56 && r.table_sizes[0] >= 257 && r.table_sizes[0] <= 286 && r.table_sizes[1] >= 1 && r.table_sizes[1] <= 30 && l.counter <= 286 + 30 + 137 && r.block_type == 2);
            let total = r.table_sizes[0] as u32 + r.table_sizes[1] as u32;
            let it0 = IT_CALLS.load(::core::sync::atomic::Ordering::Relaxed);
            let lc_i: usize = kani::any();
            kani::assume(lc_i < 512);
            let lc0 = r.len_codes[lc_i];
            let (a, l1, in1, ob1, st1) = verif_arm_ReadLitlenDistTablesCodeSize(&mut r, l, in_iter, ob, flags, mask, &inb[..inl], ReadLitlenDistTablesCodeSize);
            arm_generic_post(&a, &l1, &in1, &ob1, &out0, pos, budget, outl, flags, inl - ioff);
            if l.counter < total {
                match a {
                    Action::None => assert!(l1.counter == l.counter + 1 && l1.dist < 16 && r.len_codes[l.counter as usize] == l1.dist as u8, "OBL:arms.literal_code_length_0_15_stored [C03]"),
                    Action::Jump(BadCodeSizeDistPrevLookup) => assert!(l1.dist == 16 && l.counter == 0, "OBL:arms.repeat_previous_with_no_previous_length_rejected [C04]"),
                    Action::Jump(ReadExtraBitsCodeSize) => assert!(l1.dist >= 16 && l1.num_extra == [2u8, 3, 7, 0][(l1.dist as usize - 16) & 3] && l1.counter == l.counter && !(l1.dist == 16 && l.counter == 0), "OBL:arms.repeat_codes_16_17_18_read_2_3_7_extra_bits [C03]"),
                    Action::End(_) => assert!(l1.counter == l.counter, "OBL:arms.code_lengths_starved [C07]"),
                    _ => assert!(false, "OBL:arms.code_lengths_outcomes [C04]"),
                }
                if lc_i != l.counter as usize { assert!(r.len_codes[lc_i] == lc0, "OBL:arms.code_length_store_frame [C03]"); }
            } else if l.counter != total {
                assert!(matches!(a, Action::Jump(BadCodeSizeSum)), "OBL:arms.code_length_run_overrunning_the_tables_rejected [C04]");
            } else {
                assert!(IT_CALLS.load(::core::sync::atomic::Ordering::Relaxed) == it0 + 1 && r.block_type == 1, "OBL:arms.tables_built_distance_first [C03]");
                // run lengths may cross the literal/distance boundary: the split is purely positional
                let k: usize = kani::any();
                kani::assume(k < 286);
                if k < r.table_sizes[0] as usize && k == lc_i { assert!(r.code_size_literal[k] == lc0, "OBL:arms.literal_lengths_are_first_hlit_entries [C03]"); }
                let d: usize = kani::any();
                kani::assume(d < 30);
                if d < r.table_sizes[1] as usize && r.table_sizes[0] as usize + d == lc_i { assert!(r.code_size_dist[d] == lc0, "OBL:arms.distance_lengths_follow_immediately_across_run_boundaries [C03]"); }
            }
        }
    }
    #[kani::proof]
    #[kani::unwind(10)]
    fn k_arm_code_lengths_repeat() {
        // ReadExtraBitsCodeSize
        {
            arm_ctx!(r, l, inb, inl, ioff, out, out0, outl, pos, budget, flags, mask, ReadExtraBitsCodeSize);
            let in_iter = InputWrapper::from_slice(&inb[ioff..inl]);
            let ob = OutputBuffer::from_slice_pos_and_max(&mut out[..outl], pos, budget);
            kani::assume(l.num_bits <= 56 && l.dist >= 16 && l.dist <= 18 && l.num_extra == [2u8, 3, 7][l.dist as usize - 16] && l.counter < 286 + 30 && !(l.dist == 16 && l.counter == 0));
            let (v0, n0) = bits_view(&l, &inb[ioff..inl]);
            let prev = r.len_codes[(l.counter as usize).wrapping_sub(1) & 511];
            let lc_i: usize = kani::any();
            kani::assume(lc_i < 512);
            let lc0 = r.len_codes[lc_i];
            let (a, l1, in1, ob1, st1) = verif_arm_ReadExtraBitsCodeSize(&mut r, l, in_iter, ob, flags, mask, &inb[..inl], ReadExtraBitsCodeSize);
            arm_generic_post(&a, &l1, &in1, &ob1, &out0, pos, budget, outl, flags, inl - ioff);
            let ne = l.num_extra as u32;
            if n0 < ne {
                assert!(matches!(a, Action::End(_)) && l1.counter == l.counter && r.len_codes[lc_i] == lc0, "OBL:arms.repeat_extra_bits_starved [C07]");
            } else {
                let x = (v0 & ((1u128 << ne) - 1)) as u32;
                let rep = x + if l.dist == 18 { 11 } else { 3 };   // RFC 1951 §3.2.7: 16 -> 3..6 copies, 17 -> 3..10 zeros, 18 -> 11..138 zeros
                let val = if l.dist == 16 { prev } else { 0 };
                assert!(matches!(a, Action::Jump(ReadLitlenDistTablesCodeSize)) && l1.counter == l.counter + rep, "OBL:arms.repeat_count_per_rfc [C03]");
                let inside = lc_i >= l.counter as usize && lc_i < (l.counter + rep) as usize;
                assert!(r.len_codes[lc_i] == if inside { val } else { lc0 }, "OBL:arms.repeat_fills_exactly_the_run_with_previous_or_zero [C03]");
            }
        }
    }

    /// decompress_fast, bounded stand-in: at most 5 symbols before the (modelled) table yields end-of-block.
    #[kani::proof]
    #[kani::unwind(4)]
    #[kani::stub(HuffmanTable::lookup, model_lookup)]
    #[kani::stub(apply_match, model_apply_match)]
    #[kani::stub(transfer, model_transfer)]
    fn k_decompress_fast_bounded() { let _ = decompress_fast_body::<320>(); }
    /// same with a 512-byte ring reachable (a distance equal to the ring size is a valid match)
    #[kani::proof]
    #[kani::unwind(4)]
    #[kani::stub(HuffmanTable::lookup, model_lookup)]
    #[kani::stub(apply_match, model_apply_match)]
    #[kani::stub(transfer, model_transfer)]
    fn k_decompress_fast_bounded_ring512() {
        let hit = decompress_fast_body::<520>();
        kani::cover!(hit, "COV:fast.distance_equal_to_ring_size");
    }
    fn decompress_fast_body<const BIG: usize>() -> bool {
        LK_LIMIT.store(5, ::core::sync::atomic::Ordering::Relaxed);
        let mut r = any_decompressor(DecodeLitlen);
        let mut l = any_l();
        kani::assume(l.num_bits <= 56);
        let inb: [u8; 18] = kani::any();
        let inl: usize = kani::any();
        kani::assume(inl <= 18);
        let mut out = [0u8; BIG];
        let outl: usize = kani::any();
        let pos: usize = kani::any();
        let budget: usize = kani::any();
        let flags: u32 = kani::any();
        kani::assume(outl <= BIG && pos <= outl);
        let flat = flags & TINFL_FLAG_USING_NON_WRAPPING_OUTPUT_BUF != 0;
        kani::assume(flat || matches!(outl, 0 | 1 | 2 | 4 | 8 | 16 | 32 | 64 | 128 | 256 | 512));
        let mask: usize = if flat { usize::MAX } else { outl.saturating_sub(1) };
        let mut in_iter = InputWrapper::from_slice(&inb[..inl]);
        let mut ob = OutputBuffer::from_slice_pos_and_max(&mut out[..outl], pos, budget);
        let left = ob.bytes_left();
        kani::assume(left >= 259 && inl >= 14); // the caller's guard (k_arm_decode_litlen: fast_loop_entered_only_with...)
        let maxp = pos + left;
        let litlen_addr = &r.tables[LITLEN_TABLE] as *const HuffmanTable as usize;
        let dist_addr = &r.tables[DIST_TABLE] as *const HuffmanTable as usize;
        let (st, state) = decompress_fast(&mut r, &mut in_iter, &mut ob, flags, &mut l, mask);
        {
            // the verdict follows from the LAST symbol looked up (every other exit continues the loop):
            // RFC 1951: 256 ends the block, 286/287 (and the 9-bit padding values above) are not length symbols,
            // distance symbols 30/31 (and above) are not distance symbols
            let last = LK_LAST_SYM.load(::core::sync::atomic::Ordering::Relaxed);
            let tab = LK_LAST_TABLE.load(::core::sync::atomic::Ordering::Relaxed);
            let eob = tab == litlen_addr && last == 256;
            let bad_len = tab == litlen_addr && last >= 286 && last != usize::MAX;
            let bad_dist = tab == dist_addr && last > 29 && last != usize::MAX;
            assert!((st == TINFLStatus::Done && state == BlockDone) == eob, "OBL:fast.end_of_block_symbol_and_only_it_hands_over_to_block_done [C03 C19 C07]");
            assert!((st == TINFLStatus::Failed && state == InvalidLitlen) == bad_len, "OBL:fast.undefined_length_symbols_286_and_up_rejected_and_only_they [C04 C03 C07]");
            assert!((st == TINFLStatus::Failed && state == InvalidDist) == bad_dist, "OBL:fast.undefined_distance_symbols_30_and_up_rejected_and_only_they [C04 C03 C07]");
            if st == TINFLStatus::Done && state == DecodeLitlen {
                assert!(ob.bytes_left() < 259 || in_iter.bytes_left() < 14, "OBL:fast.returns_to_the_careful_decoder_only_when_margins_are_gone [C05 C07]");
            }
            kani::cover!(eob, "COV:fast.end_of_block");
            kani::cover!(bad_len && last == 286, "COV:fast.symbol_286");
        }
        assert!(ob.position() >= pos && ob.position() <= maxp, "OBL:fast.never_writes_past_the_granted_window [C05 C08]");
        assert!(inv_l(&l), "OBL:fast.registers_well_formed [C05]");
        match st {
            TINFLStatus::Done => assert!(state == DecodeLitlen || state == BlockDone, "OBL:fast.done_states [C03]"),
            TINFLStatus::Failed => {
                assert!(state == InvalidLitlen || state == InvalidDist || state == DistanceOutOfBounds, "OBL:fast.failure_states [C04]");
                // a distance is rejected only if it really reaches before the data: not when it equals the window size
                if state == DistanceOutOfBounds {
                    assert!((flat && l.dist as usize > ob.position()) || l.dist as usize > outl, "OBL:fast.valid_distances_up_to_the_window_size_are_accepted [C03]");
                }
            }
            _ => assert!(false, "OBL:fast.only_done_or_failed [C04]"),
        }
        kani::cover!(st == TINFLStatus::Failed, "COV:fast.failed");
        kani::cover!(AM_CALLS.load(::core::sync::atomic::Ordering::Relaxed) >= 1, "COV:fast.match");
        !flat && AM_CALLS.load(::core::sync::atomic::Ordering::Relaxed) >= 1 && l.dist as usize == outl
    }

    // ------------------------------------------------------------------
    // K-boundary (cargo feature block-boundary): the boundary record and the stop-at-block-boundary exit
    // ------------------------------------------------------------------
    #[cfg(feature = "block-boundary")]
    #[kani::proof]
    fn k_block_boundary_record() {
        let st = if kani::any() { ReadBlockHeader } else { DecodeLitlen };
        let r = any_decompressor(st);
        kani::assume(r.num_bits < 8 && r.bit_buf >> r.num_bits == 0); // what the BlockBoundary exit leaves (k_block_boundary_exit)
        let b = r.block_boundary_state();
        if st != ReadBlockHeader { assert!(b.is_none(), "OBL:boundary.record_only_at_a_block_boundary [C19]"); return; }
        let b = b.unwrap();
        assert!(b.num_bits as u32 == r.num_bits && b.bit_buf as BitBuffer == r.bit_buf && b.z_header0 == r.z_header0 && b.z_header1 == r.z_header1 && b.check_adler32 == r.check_adler32,
            "OBL:boundary.record_holds_pending_bits_header_and_running_checksum [C19]");
        let r2 = DecompressorOxide::from_block_boundary_state(&b);
        assert!(r2.state == ReadBlockHeader && r2.num_bits == r.num_bits && r2.bit_buf == r.bit_buf && r2.z_header0 == r.z_header0 && r2.z_header1 == r.z_header1
            && r2.check_adler32 == r.check_adler32, "OBL:boundary.decoder_rebuilt_from_record_resumes_with_the_same_live_registers [C19]");
        // every other register is dead at ReadBlockHeader (re-initialised before use by the block-header arms): rebuilt as default
        assert!(r2.finish == 0 && r2.block_type == 0 && r2.dist == 0 && r2.counter == 0 && r2.num_extra == 0 && r2.z_adler32 == 1, "OBL:boundary.other_registers_default [C19]");
    }

    #[cfg(feature = "block-boundary")]
    #[kani::proof]
    #[kani::unwind(10)]
    #[kani::stub(update_adler32, model_adler)]
    fn k_block_boundary_exit() {
        // concrete flag words (a symbolic one makes symbolic execution enter the whole automaton through the
        // not-stopping branch): ring / flat, raw / zlib, checksum on / ignored
        block_boundary_exit_body(TINFL_FLAG_STOP_ON_BLOCK_BOUNDARY);
        block_boundary_exit_body(TINFL_FLAG_STOP_ON_BLOCK_BOUNDARY | TINFL_FLAG_USING_NON_WRAPPING_OUTPUT_BUF | TINFL_FLAG_PARSE_ZLIB_HEADER | TINFL_FLAG_HAS_MORE_INPUT);
        block_boundary_exit_body(TINFL_FLAG_STOP_ON_BLOCK_BOUNDARY | TINFL_FLAG_PARSE_ZLIB_HEADER | TINFL_FLAG_IGNORE_ADLER32);
    }
    #[cfg(feature = "block-boundary")]
    fn block_boundary_exit_body(flags: u32) {
        // the real decompress_with_limit entered in state BlockDone after a non-final block
        let mut r = any_decompressor(BlockDone);
        r.finish = 0; // concrete: a symbolic value makes symbolic execution walk the end-of-stream path as well
        kani::assume(r.num_bits <= 56 && r.bit_buf >> r.num_bits == 0);
        let nb0 = r.num_bits;
        let inb: [u8; 4] = kani::any();
        let inl: usize = kani::any();
        kani::assume(inl <= 4);
        let mut out: [u8; OUT_CAP] = kani::any();
        let outl: usize = kani::any();
        kani::assume(outl <= OUT_CAP);
        let out_pos: usize = kani::any();
        let flat = flags & TINFL_FLAG_USING_NON_WRAPPING_OUTPUT_BUF != 0;
        kani::assume((flat || matches!(outl, 0 | 1 | 2 | 4 | 8 | 16)) && out_pos <= outl);
        let (st, c, w) = decompress_with_limit(&mut r, &inb[..inl], &mut out[..outl], out_pos, usize::MAX, flags);
        assert!(st == TINFLStatus::BlockBoundary, "OBL:boundary.stop_reported_after_a_non_final_block [C19]");
        assert!(r.state == ReadBlockHeader && c == 0 && w == 0, "OBL:boundary.resumes_at_next_block_header_nothing_consumed [C19]");
        // whole unread bytes can only be handed back if they were read during this call (none were): the record's
        // precondition num_bits < 8 therefore needs the history invariant of DESIGN.md §4 C06 (assumed)
        assert!(r.num_bits == nb0, "OBL:boundary.pending_bits_kept [C19]");
    }

    // ------------------------------------------------------------------
    // K-longcodes : the real init_tree on a CONCRETE complete code with lengths 1,2,...,14,15,15 (codes up to 15 bits,
    // i.e. through the overflow tree), then the real decode_huffman_code / HuffmanTable::lookup on a symbolic bit
    // stream. Oracle: canonical Huffman decoding per RFC 1951 §3.2.2 (for this code: count leading 1 bits).
    // The table build is concrete (a test of init_tree, not a proof); the decoding is complete over all bit streams.
    // ------------------------------------------------------------------
    fn long_code_decoder() -> DecompressorOxide {
        let mut r = DecompressorOxide::default();
        let mut k = 0;
        while k < 16 { r.code_size_literal[k] = if k < 15 { (k + 1) as u8 } else { 15 }; k += 1; }
        r.table_sizes[LITLEN_TABLE] = 16;
        r.block_type = LITLEN_TABLE as u8;
        r
    }
    /// canonical decode of the unary-shaped code: symbol = number of leading 1 bits (capped), length = symbol+1 (cap 15)
    fn oracle_long_code(v: u128, n: u32) -> Option<(i32, u32)> {
        let mut ones = 0u32;
        let mut k = 0;
        while k < 15 { if ones == k && k < n && (v >> k) & 1 == 1 { ones += 1; } k += 1; }
        let (sym, len) = if ones >= 15 { (15, 15) } else if ones == 14 { (14, 15) } else { (ones as i32, ones + 1) };
        if n >= len { Some((sym, len)) } else { None }
    }
    /// <[T]>::fill model for this harness only: a no-op. Sound here because the code is complete: init_tree
    /// overwrites every fast-table slot afterwards (checked below at a symbolic slot: no slot keeps the default 0),
    /// and the tree array of a default decoder is already zero.
    fn model_fill_noop<T: Clone>(s: &mut [T], v: T) {}
    #[kani::proof]
    #[kani::unwind(520)]
    #[kani::stub(<[i16]>::fill, model_fill_noop)]
    fn k_decode_huffman_long_codes() {
        let mut r = long_code_decoder();
        let mut l0 = LocalVars { bit_buf: 0, num_bits: 0, dist: 0, counter: 0, num_extra: 0 };
        let a = init_tree(&mut r, &mut l0);
        assert!(matches!(a, Some(Action::Jump(DecodeLitlen))), "OBL:longcodes.complete_code_with_15_bit_lengths_is_accepted [C03]");
        let slot: usize = kani::any();
        kani::assume(slot < 1024);
        assert!(r.tables[LITLEN_TABLE].look_up[slot] != 0, "OBL:longcodes.every_fast_table_slot_assigned_for_a_complete_code [C03]");
        let mut l = any_l();
        kani::assume(l.num_bits <= 40);
        let inb: [u8; 3] = kani::any();
        let inl: usize = kani::any();
        kani::assume(inl <= 3);
        let flags: u32 = kani::any();
        let mut in_iter = InputWrapper::from_slice(&inb[..inl]);
        let (v0, n0) = bits_view(&l, &inb[..inl]);
        let got = ::core::cell::Cell::new(-1i32);
        let act = decode_huffman_code(&mut r, &mut l, LITLEN_TABLE, flags, &mut in_iter, |_r, _l, sym| { got.set(sym); Action::None });
        let (v1, n1) = bits_view(&l, in_iter.as_slice());
        match oracle_long_code(v0, n0) {
            Some((sym, len)) => {
                assert!(matches!(act, Action::None) && got.get() == sym, "OBL:longcodes.symbol_is_the_canonical_huffman_decode [C03]");
                assert!(n1 + len == n0 && v1 == v0 >> len, "OBL:longcodes.exactly_the_code_length_is_consumed [C03 C06]");
            }
            None => {
                assert!(matches!(act, Action::End(_)) && got.get() == -1, "OBL:longcodes.incomplete_code_at_end_of_input_is_starvation_not_a_symbol [C04 C07]");
                assert!(n1 == n0 && v1 == v0 && in_iter.bytes_left() == 0, "OBL:longcodes.starved_decode_leaves_bit_stream_unchanged [C07]");
            }
        }
        // never more input in the bit buffer than needed to reach 15 bits when fewer than 2 bytes were offered
        if inl < 2 && l.num_bits as usize >= 8 { assert!(n0 - 8 * (inl as u32) < 15 || in_iter.bytes_left() == inl, "OBL:longcodes.reads_only_the_bytes_it_needs_near_end_of_input [C06]"); }
        assert!(inv_l(&l), "OBL:longcodes.registers_well_formed [C05]");
        kani::cover!(matches!(oracle_long_code(v0, n0), Some((15, 15))), "COV:longcodes.fifteen_bit_code");
        kani::cover!(oracle_long_code(v0, n0).is_none(), "COV:longcodes.starved");
    }

    // ------------------------------------------------------------------
    // K-applymatch : the real apply_match WITH the real transfer on a small buffer, against the RFC 1951 copy
    // semantics (byte i reads index (src+i)&mask of the buffer as already updated). Complete in positions, distance,
    // length, mode and contents; bounded in buffer length. (transfer alone is proved unbounded in Verus.)
    // ------------------------------------------------------------------
    #[kani::proof]
    #[kani::unwind(18)]
    fn k_apply_match_small_buffer() { apply_match_body::<16>(); }
    #[kani::proof]
    #[kani::unwind(10)]
    fn k_apply_match_tiny_buffer() { apply_match_body::<8>(); }
    fn apply_match_body<const N: usize>() {
        let mut buf: [u8; N] = kani::any();
        let mut reference = buf;
        let len: usize = kani::any();
        let flat: bool = kani::any();
        kani::assume(len <= N && (flat || matches!(len, 1 | 2 | 4 | 8 | 16)));
        let mask = if flat { usize::MAX } else { len - 1 };
        let (out_pos, dist, match_len): (usize, usize, usize) = (kani::any(), kani::any(), kani::any());
        // what the calling arms guarantee (k_arm_huff_decode_outer_loop2 / decompress_fast): the match fits, the
        // distance is positive and reaches neither before the start (flat) nor beyond the ring
        kani::assume(out_pos <= len && match_len <= len - out_pos && match_len >= 3 && dist >= 1 && (if flat { dist <= out_pos } else { dist <= len }));
        // the slow path additionally never calls apply_match when the source overlaps the destination from above
        let src = out_pos.wrapping_sub(dist) & mask;
        let mut i = 0;
        while i < N { if i < match_len { reference[out_pos + i] = reference[(src + i) & mask]; } i += 1; }
        apply_match(&mut buf[..len], out_pos, dist, match_len, mask);
        let k: usize = kani::any();
        kani::assume(k < N);
        assert!(buf[k] == reference[k], "OBL:applymatch.result_is_the_rfc_copy_and_nothing_else_changes [C03 C07 C08]");
        kani::cover!(match_len == 3, "COV:applymatch.len3_cell_branch");
        kani::cover!(!flat && src >= out_pos, "COV:applymatch.source_after_destination");
        kani::cover!(dist == 1 && match_len > 4, "COV:applymatch.run");
    }

    // ------------------------------------------------------------------
    // K-slowdecode : the real decode_huffman_code / HuffmanTable::{fast_lookup,tree_lookup} on a well-formed table
    // instance with 11- and 12-bit codes (through the overflow tree), symbolic bit stream, symbolic split between bit
    // buffer and input. The table is the one init_tree builds for the complete code with lengths 1,2,...,11,12,12
    // (layout derived from init_tree's algorithm by hand and evaluated at compile time; that init_tree produces it is
    // NOT checked here: init_tree is behind an assumed contract, DESIGN.md §3). Oracle: canonical Huffman decoding
    // (RFC 1951 §3.2.2) = count the leading 1 bits.
    // ------------------------------------------------------------------
    const LONG_LOOKUP: [i16; 1024] = {
        let mut t = [0i16; 1024];
        let mut idx = 0usize;
        while idx < 1024 {
            // number of trailing one bits of idx (the stream is read LSB first)
            let mut k = 0i16; let mut v = idx;
            while v & 1 == 1 && k < 10 { k += 1; v >>= 1; }
            t[idx] = if k < 10 { ((k + 1) << 9) | k } else { -1 };
            idx += 1;
        }
        t
    };
    const LONG_TREE: [i16; MAX_HUFF_TREE_SIZE] = { let mut t = [0i16; MAX_HUFF_TREE_SIZE]; t[0] = 10; t[1] = -3; t[2] = 11; t[3] = 12; t };
    fn oracle_unary_code(v: u128, n: u32) -> Option<(i32, u32)> {
        let mut ones = 0u32;
        let mut k = 0;
        while k < 12 { if ones == k && k < n && (v >> k) & 1 == 1 { ones += 1; } k += 1; }
        let (sym, len) = if ones >= 12 { (12, 12) } else if ones == 11 { (11, 12) } else { (ones as i32, ones + 1) };
        if n >= len { Some((sym, len)) } else { None }
    }
    #[kani::proof]
    #[kani::unwind(14)]
    fn k_decode_huffman_code_overflow_tree() {
        let mut r = DecompressorOxide::default();
        r.tables[LITLEN_TABLE].look_up = LONG_LOOKUP;
        r.tables[LITLEN_TABLE].tree = LONG_TREE;
        let mut l = any_l();
        kani::assume(l.num_bits <= 40);
        let inb: [u8; 3] = kani::any();
        let inl: usize = kani::any();
        kani::assume(inl <= 3);
        let flags: u32 = kani::any();
        let mut in_iter = InputWrapper::from_slice(&inb[..inl]);
        let (v0, n0) = bits_view(&l, &inb[..inl]);
        let got = ::core::cell::Cell::new(-1i32);
        let act = decode_huffman_code(&mut r, &mut l, LITLEN_TABLE, flags, &mut in_iter, |_r, _l, sym| { got.set(sym); Action::None });
        let (v1, n1) = bits_view(&l, in_iter.as_slice());
        match oracle_unary_code(v0, n0) {
            Some((sym, len)) => {
                assert!(matches!(act, Action::None) && got.get() == sym, "OBL:slowdecode.symbol_is_the_canonical_huffman_decode_incl_11_12_bit_codes [C03]");
                assert!(n1 + len == n0 && v1 == v0 >> len, "OBL:slowdecode.exactly_the_code_length_is_consumed [C03 C06]");
            }
            None => {
                assert!(matches!(act, Action::End(_)) && got.get() == -1, "OBL:slowdecode.incomplete_code_at_end_of_input_is_starvation_not_a_symbol [C04 C07]");
                assert!(n1 == n0 && v1 == v0 && in_iter.bytes_left() == 0, "OBL:slowdecode.starved_decode_leaves_the_unread_bit_stream_unchanged [C07]");
            }
        }
        assert!(inv_l(&l), "OBL:slowdecode.registers_well_formed [C05]");
        kani::cover!(matches!(oracle_unary_code(v0, n0), Some((12, 12))), "COV:slowdecode.twelve_bit_code");
        kani::cover!(oracle_unary_code(v0, n0).is_none() && n0 >= 11, "COV:slowdecode.starved_inside_the_tree");
        kani::cover!(inl < 2 && l.num_bits < 15, "COV:slowdecode.byte_at_a_time_path");
    }

    // ------------------------------------------------------------------
    // K-stored-e2e : a bounded END-TO-END run of the real decompress() (whole automaton: prologue, Start,
    // [zlib header], block header, stored block arms, BlockDone, [trailer], epilogue) on a final stored block of
    // 0..=2 symbolic bytes followed by 0..=2 arbitrary trailing bytes, flat or ring output, any padding bits.
    // The first byte is concrete per variant (a symbolic block type would make CBMC build Huffman tables).
    // This is the one place where the COMPOSITION of arms is exercised for all inputs of a (small) family.
    // ------------------------------------------------------------------
    fn stored_e2e_body(first_byte: u8, zlib: bool, n: usize, trailing: usize, flat: bool, more: bool) {
        // block structure concrete (a symbolic length or flag makes the automaton's state symbolic and CBMC then
        // expands all 25 arms per step: > 12 GB); the data bytes, trailer and trailing bytes are symbolic
        let mut r = DecompressorOxide::default();
        let mut inb = [0u8; 15];
        let mut p = 0;
        if zlib { inb[0] = 0x78; inb[1] = 0x9C; p = 2; }
        inb[p] = first_byte;                       // BFINAL=1, BTYPE=00, 5 padding bits
        inb[p + 1] = n as u8; inb[p + 2] = 0; inb[p + 3] = !(n as u8); inb[p + 4] = 0xFF;
        let data: [u8; 2] = kani::any();
        inb[p + 5] = data[0]; inb[p + 6] = data[1];
        let body_end = p + 5 + n;
        let trailer: [u8; 4] = kani::any();
        let mut q = body_end;
        if zlib { inb[q] = trailer[0]; inb[q + 1] = trailer[1]; inb[q + 2] = trailer[2]; inb[q + 3] = trailer[3]; q += 4; }
        let stream_len = q;
        let junk: [u8; 2] = kani::any();
        inb[q] = junk[0]; inb[q + 1] = junk[1];
        let total = stream_len + trailing;
        let mut flags = if flat { TINFL_FLAG_USING_NON_WRAPPING_OUTPUT_BUF } else { 0 };
        if zlib { flags |= TINFL_FLAG_PARSE_ZLIB_HEADER; }
        if more { flags |= TINFL_FLAG_HAS_MORE_INPUT; }
        let mut out = [0xAAu8; 8];
        let (st, c, w) = decompress(&mut r, &inb[..total], &mut out[..], 0, flags);
        if zlib {
            // 8 bytes cannot hold the 32 KiB window the header declares: a ring decoder must refuse, a flat one accepts
            if !flat { assert!(st == TINFLStatus::Failed, "OBL:e2e.zlib_header_window_larger_than_ring_is_rejected [C04 C09]"); return; }
            let want = model_adler(1, &data[..n]);
            let got = (trailer[0] as u32) << 24 | (trailer[1] as u32) << 16 | (trailer[2] as u32) << 8 | trailer[3] as u32;
            assert!(st == if got == want { TINFLStatus::Done } else { TINFLStatus::Adler32Mismatch }, "OBL:e2e.completion_only_if_trailer_equals_checksum_of_output [C09 C04]");
        } else {
            assert!(st == TINFLStatus::Done, "OBL:e2e.valid_stored_stream_decodes_to_done [C03]");
        }
        assert!(c == stream_len, "OBL:e2e.consumed_is_exactly_the_encoded_length_whatever_follows [C06]");
        assert!(w == n && (n < 1 || out[0] == data[0]) && (n < 2 || out[1] == data[1]), "OBL:e2e.output_is_exactly_the_stored_bytes [C03 C01]");
        let k: usize = kani::any();
        kani::assume(k < 8 && k >= n);
        assert!(out[k] == 0xAA, "OBL:e2e.nothing_written_beyond_the_reported_count [C08]");
        assert!(r.state == DoneForever, "OBL:e2e.decoder_ends_in_done_state [C13]");
    }
    #[kani::proof]
    #[kani::unwind(40)]
    fn k_stored_block_end_to_end_raw() {
        stored_e2e_body(0x01, false, 0, 0, true, false);
        stored_e2e_body(0x01, false, 1, 2, true, true);
        stored_e2e_body(0xF9, false, 2, 2, false, false);
        stored_e2e_body(0xF9, false, 2, 1, true, true);
    }
    #[kani::proof]
    #[kani::unwind(40)]
    #[kani::stub(update_adler32, model_adler)]
    fn k_stored_block_end_to_end_zlib() {
        stored_e2e_body(0x01, true, 2, 2, true, false);
        stored_e2e_body(0xF9, true, 1, 0, true, true);
        stored_e2e_body(0x01, true, 0, 1, true, false);
        stored_e2e_body(0x01, true, 1, 1, false, false);
    }

    // ------------------------------------------------------------------
    // K-inittree-reject : the verdict half of the real init_tree: an over-subscribed code-length set, and an
    // incomplete one (except the RFC/zlib exemptions: no codes at all, or a single 1-bit code, for litlen/dist), is
    // never accepted. The table-construction half runs only for accepted sets and stays unverified (DESIGN.md §10).
    // Oracle: Kraft sum over the lengths, in units of 2^-15.
    // ------------------------------------------------------------------
    #[kani::proof]
    #[kani::unwind(18)]
    fn k_init_tree_rejects_invalid_sets() {
        const N: usize = 6;
        let mut r = DecompressorOxide::default();
        let bt: u8 = kani::any();
        kani::assume(bt <= 2);
        r.block_type = bt;
        r.table_sizes[bt as usize] = N as u16;
        let lens: [u8; N] = kani::any();
        let mut kraft: u32 = 0;
        let mut maxlen: u8 = 0;
        let mut i = 0;
        while i < N {
            kani::assume(lens[i] <= 15);
            if lens[i] > 0 { kraft += 1u32 << (15 - lens[i]); if lens[i] > maxlen { maxlen = lens[i]; } }
            match bt { 0 => r.code_size_literal[i] = lens[i], 1 => r.code_size_dist[i] = lens[i], _ => r.code_size_huffman[i] = lens[i] }
            i += 1;
        }
        let over = kraft > 1 << 15;
        let incomplete = kraft < 1 << 15;
        let exempt = bt != 2 && maxlen <= 1;
        kani::assume(over || (incomplete && !exempt));
        let mut l = LocalVars { bit_buf: 0, num_bits: 0, dist: 0, counter: 0, num_extra: 0 };
        let a = init_tree(&mut r, &mut l);
        assert!(matches!(a, Some(Action::Jump(BadTotalSymbols))), "OBL:inittree.over_subscribed_or_incomplete_code_sets_are_rejected [C04]");
        kani::cover!(over, "COV:inittree.over_subscribed");
        kani::cover!(incomplete && !exempt, "COV:inittree.incomplete");
    }

    // ------------------------------------------------------------------
    // K-serde (cargo feature serde): the derived Serialize of the decoder visits EVERY field of the struct, under its
    // own name, once, in declaration order -- a field left out (#[serde(skip)]) silently resets a live register in a
    // serialized-and-restored copy. A recording Serializer stands in for the data format (it does not descend into
    // the field values). The field list is tied to the struct by an exhaustive destructuring pattern: a field added,
    // removed or renamed in /repo stops this harness from compiling (reported as undecided, never as a violation).
    // ------------------------------------------------------------------
    #[cfg(feature = "serde")]
    mod serde_rec {
        use ::serde::ser::{self, Impossible, Serialize, SerializeStruct, Serializer};
        use ::core::sync::atomic::{AtomicUsize, Ordering::Relaxed};
        pub static DECLARED: AtomicUsize = AtomicUsize::new(usize::MAX);
        pub static VISITED: AtomicUsize = AtomicUsize::new(0);
        pub static IN_ORDER: AtomicUsize = AtomicUsize::new(0);
        pub static ENDED: AtomicUsize = AtomicUsize::new(0);
        pub const FIELDS: [&str; 20] = ["state", "num_bits", "z_header0", "z_header1", "z_adler32", "finish", "block_type", "check_adler32", "dist",
            "counter", "num_extra", "table_sizes", "bit_buf", "tables", "code_size_literal", "code_size_dist", "code_size_huffman", "raw_header", "len_codes", ""];
        pub const N_FIELDS: usize = 19;
        #[derive(Debug)]
        pub struct E;
        impl ::core::fmt::Display for E { fn fmt(&self, _f: &mut ::core::fmt::Formatter<'_>) -> ::core::fmt::Result { Ok(()) } }
        impl ser::StdError for E {}
        impl ser::Error for E { fn custom<T: ::core::fmt::Display>(_m: T) -> Self { E } }
        pub struct Rec;
        pub struct RecStruct;
        fn same(a: &str, b: &str) -> bool {
            let (a, b) = (a.as_bytes(), b.as_bytes());
            if a.len() != b.len() { return false; }
            let mut i = 0;
            while i < a.len() { if a[i] != b[i] { return false; } i += 1; }
            true
        }
        impl SerializeStruct for RecStruct {
            type Ok = (); type Error = E;
            fn serialize_field<T: ?Sized + Serialize>(&mut self, key: &'static str, _value: &T) -> Result<(), E> {
                let n = VISITED.fetch_add(1, Relaxed);
                if n < N_FIELDS && same(key, FIELDS[n]) { IN_ORDER.fetch_add(1, Relaxed); }
                Ok(())
            }
            fn end(self) -> Result<(), E> { ENDED.fetch_add(1, Relaxed); Ok(()) }
        }
        macro_rules! refuse { ($($f:ident($($t:ty),*)),*) => { $(fn $f(self $(, _: $t)*) -> Result<(), E> { Err(E) })* }; }
        impl Serializer for Rec {
            type Ok = (); type Error = E;
            type SerializeSeq = Impossible<(), E>; type SerializeTuple = Impossible<(), E>; type SerializeTupleStruct = Impossible<(), E>;
            type SerializeTupleVariant = Impossible<(), E>; type SerializeMap = Impossible<(), E>; type SerializeStruct = RecStruct;
            type SerializeStructVariant = Impossible<(), E>;
            refuse!(serialize_bool(bool), serialize_i8(i8), serialize_i16(i16), serialize_i32(i32), serialize_i64(i64), serialize_u8(u8), serialize_u16(u16),
                    serialize_u32(u32), serialize_u64(u64), serialize_f32(f32), serialize_f64(f64), serialize_char(char), serialize_str(&str), serialize_bytes(&[u8]),
                    serialize_none(), serialize_unit(), serialize_unit_struct(&'static str), serialize_unit_variant(&'static str, u32, &'static str));
            fn serialize_some<T: ?Sized + Serialize>(self, _: &T) -> Result<(), E> { Err(E) }
            fn serialize_newtype_struct<T: ?Sized + Serialize>(self, _: &'static str, _: &T) -> Result<(), E> { Err(E) }
            fn serialize_newtype_variant<T: ?Sized + Serialize>(self, _: &'static str, _: u32, _: &'static str, _: &T) -> Result<(), E> { Err(E) }
            fn serialize_seq(self, _: Option<usize>) -> Result<Self::SerializeSeq, E> { Err(E) }
            fn serialize_tuple(self, _: usize) -> Result<Self::SerializeTuple, E> { Err(E) }
            fn serialize_tuple_struct(self, _: &'static str, _: usize) -> Result<Self::SerializeTupleStruct, E> { Err(E) }
            fn serialize_tuple_variant(self, _: &'static str, _: u32, _: &'static str, _: usize) -> Result<Self::SerializeTupleVariant, E> { Err(E) }
            fn serialize_map(self, _: Option<usize>) -> Result<Self::SerializeMap, E> { Err(E) }
            fn serialize_struct(self, _name: &'static str, len: usize) -> Result<RecStruct, E> { DECLARED.store(len, Relaxed); Ok(RecStruct) }
            fn serialize_struct_variant(self, _: &'static str, _: u32, _: &'static str, _: usize) -> Result<Self::SerializeStructVariant, E> { Err(E) }
        }
    }
    #[cfg(feature = "serde")]
    #[kani::proof]
    #[kani::unwind(20)]
    fn k_serde_visits_every_decoder_field() {
        use ::core::sync::atomic::Ordering::Relaxed;
        use ::serde::ser::Serialize;
        let r = DecompressorOxide::default();
        // exhaustive: fails to compile when the struct's field set changes
        let DecompressorOxide { state: _, num_bits: _, z_header0: _, z_header1: _, z_adler32: _, finish: _, block_type: _, check_adler32: _, dist: _,
            counter: _, num_extra: _, table_sizes: _, bit_buf: _, tables: _, code_size_literal: _, code_size_dist: _, code_size_huffman: _, raw_header: _, len_codes: _ } = &r;
        let res = r.serialize(serde_rec::Rec);
        assert!(res.is_ok() && serde_rec::ENDED.load(Relaxed) == 1, "OBL:serde.decoder_serializes_as_one_struct [C19]");
        assert!(serde_rec::DECLARED.load(Relaxed) == serde_rec::N_FIELDS && serde_rec::VISITED.load(Relaxed) == serde_rec::N_FIELDS,
            "OBL:serde.every_decoder_field_is_serialized_none_skipped [C19]");
        assert!(serde_rec::IN_ORDER.load(Relaxed) == serde_rec::N_FIELDS, "OBL:serde.fields_serialized_under_their_own_names_in_declaration_order [C19]");
    }

    // ------------------------------------------------------------------
    // K-inittree-instance : the REAL init_tree on the concrete complete code with lengths 1,2,...,11,12,12 builds
    // exactly the table instance K-slowdecode decodes with (fast table for codes <= 10 bits, overflow tree for the
    // 11/12-bit ones). Together: init_tree + decode_huffman_code implement canonical Huffman decoding for this code,
    // every bit stream. Everything concrete here (symbolic lengths: no result in 20 min in five formulations); the
    // comparison is made at a symbolic index.
    // ------------------------------------------------------------------
    #[kani::proof]
    #[kani::unwind(1030)]
    fn k_init_tree_builds_the_long_code_table() {
        let mut r = DecompressorOxide::default();
        r.block_type = LITLEN_TABLE as u8;
        r.table_sizes[LITLEN_TABLE] = 13;
        let lens: [u8; 13] = [1, 2, 3, 4, 5, 6, 7, 8, 9, 10, 11, 12, 12];
        let mut i = 0;
        while i < 13 { r.code_size_literal[i] = lens[i]; i += 1; }
        // stale content from a previous block must not survive
        r.tables[LITLEN_TABLE].tree[5] = 77;
        r.tables[LITLEN_TABLE].look_up[1023] = 5;
        let mut l = LocalVars { bit_buf: 0, num_bits: 0, dist: 0, counter: 99, num_extra: 0 };
        let a = init_tree(&mut r, &mut l);
        assert!(matches!(a, Some(Action::Jump(DecodeLitlen))) && l.counter == 0, "OBL:inittree.complete_code_accepted_and_decoding_starts [C03]");
        let k: usize = kani::any();
        kani::assume(k < 1024);
        assert!(r.tables[LITLEN_TABLE].look_up[k] == LONG_LOOKUP[k], "OBL:inittree.fast_table_is_the_canonical_code_bit_reversed_replicated [C03]");
        let t: usize = kani::any();
        kani::assume(t < MAX_HUFF_TREE_SIZE);
        assert!(r.tables[LITLEN_TABLE].tree[t] == LONG_TREE[t], "OBL:inittree.overflow_tree_holds_the_codes_longer_than_10_bits_and_nothing_stale [C03 C18]");
    }

    // ------------------------------------------------------------------
    // init_tree, what it clears: every table it rebuilds for a new block starts from an all-invalid fast table, and
    // -- for the literal/length AND the distance table -- a zeroed overflow tree; nothing of the previous block's
    // tables survives (a stale tree node silently changes which symbol a long code of the next block decodes to).
    // Code sets are all-unused (accepted: nothing to place), so the run is the clearing prologue + verdicts only;
    // <[i16]>::fill is replaced by its std contract model (writes index 0, records call count and lengths).
    // ------------------------------------------------------------------
    static IF_CALLS: ::core::sync::atomic::AtomicUsize = ::core::sync::atomic::AtomicUsize::new(0);
    static IF_LEN: ::core::sync::atomic::AtomicUsize = ::core::sync::atomic::AtomicUsize::new(0);
    fn model_fill_rec<T: Clone>(s: &mut [T], v: T) {
        IF_LEN.fetch_add(s.len(), ::core::sync::atomic::Ordering::Relaxed);
        if !s.is_empty() { s[0] = v; }
        IF_CALLS.fetch_add(1, ::core::sync::atomic::Ordering::Relaxed);
    }
    #[kani::proof]
    #[kani::unwind(20)]
    #[kani::stub(<[i16]>::fill, model_fill_rec)]
    fn k_init_tree_clears_tables() {
        // the starting table is concrete per body (a symbolic one makes init_tree's outer loop exit symbolic: no result in 15 min)
        init_tree_clears_body(2);
        init_tree_clears_body(1);
        init_tree_clears_body(0);
    }
    fn init_tree_clears_body(start: u8) {
        use ::core::sync::atomic::Ordering::Relaxed;
        IF_CALLS.store(0, Relaxed); IF_LEN.store(0, Relaxed);
        let mut r = DecompressorOxide::default();
        r.block_type = start;
        r.table_sizes = [4, 2, 19];
        // stale content of the previous block in every table
        let mut t = 0;
        while t < 3 { r.tables[t].look_up[0] = 0x0123; r.tables[t].tree[0] = -7; t += 1; }
        let mut l = LocalVars { bit_buf: 0, num_bits: 0, dist: 0, counter: 99, num_extra: 0 };
        let a = init_tree(&mut r, &mut l);
        const INVALID: i16 = (1 << 9) | 286;
        if start == HUFFLEN_TABLE as u8 {
            // an all-unused code-length code is incomplete: rejected (RFC 1951 / zlib inftrees)
            assert!(matches!(a, Some(Action::Jump(BadTotalSymbols))), "OBL:inittree.empty_code_length_code_rejected [C04]");
            assert!(r.tables[HUFFLEN_TABLE].look_up[0] == INVALID, "OBL:inittree.fast_table_reset_to_invalid_before_use [C03 C18]");
        } else {
            assert!(matches!(a, Some(Action::Jump(DecodeLitlen))) && l.counter == 0 && r.block_type == 0, "OBL:inittree.unused_litlen_and_distance_codes_accepted_both_tables_built [C03]");
            let built = start as usize + 1; // distance first, then literal/length
            assert!(IF_CALLS.load(Relaxed) == 2 * built && IF_LEN.load(Relaxed) == built * (FAST_LOOKUP_SIZE as usize + MAX_HUFF_TREE_SIZE),
                "OBL:inittree.every_rebuilt_table_gets_fast_table_and_overflow_tree_cleared_in_full [C03 C04 C18]");
            assert!(r.tables[LITLEN_TABLE].look_up[0] == INVALID && r.tables[LITLEN_TABLE].tree[0] == 0, "OBL:inittree.litlen_table_has_no_stale_entries [C03 C18]");
            if start == DIST_TABLE as u8 {
                assert!(r.tables[DIST_TABLE].look_up[0] == INVALID && r.tables[DIST_TABLE].tree[0] == 0, "OBL:inittree.distance_table_has_no_stale_entries [C03 C04 C18]");
            }
        }
        let x: u8 = kani::any();
        kani::cover!(start == 1 && x == 7, "COV:inittree.dynamic_block_both_tables");
    }

    // ------------------------------------------------------------------
    // epilogue after a starved reader: the real decompress_with_limit entered at ReadExtraBitsDistance needing 13 extra
    // bits with 3 buffered, given ONE more byte and "more input follows". The byte goes into the bit buffer and is
    // reported consumed (it must not be handed back: the caller would offer the same byte again, forever); the
    // registers saved for resumption hold exactly old bits + that byte.
    // ------------------------------------------------------------------
    #[kani::proof]
    #[kani::stub(update_adler32, model_adler)]
    fn k_epilogue_starved_call_keeps_its_byte() {
        let mut r = any_decompressor(ReadExtraBitsDistance);
        // concrete bit count (a symbolic one leaves "enough bits?" undecided during symbolic execution, which then walks on
        // through the whole automaton: no result in 15 min); the buffered bits themselves stay symbolic
        r.num_bits = 3;
        kani::assume((r.bit_buf >> 3) == 0);
        r.num_extra = 13;
        let (nb0, bb0, dist0, counter0) = (r.num_bits, r.bit_buf, r.dist, r.counter);
        let inb: [u8; 1] = kani::any();
        let mut out: [u8; OUT_CAP] = kani::any();
        let out0 = out;
        let outl: usize = kani::any();
        kani::assume(outl <= OUT_CAP);
        let out_pos: usize = kani::any();
        let out_max: usize = kani::any();
        let flags: u32 = kani::any();
        kani::assume(flags & TINFL_FLAG_HAS_MORE_INPUT != 0);
        let flat = flags & TINFL_FLAG_USING_NON_WRAPPING_OUTPUT_BUF != 0;
        kani::assume((flat || (outl != 0 && outl & (outl - 1) == 0)) && out_pos <= outl);
        let (st, c, w) = decompress_with_limit(&mut r, &inb[..], &mut out[..outl], out_pos, out_max, flags);
        // (a full output window is reported first: the caller has to make room before more input can help)
        let space = core::cmp::min(out_pos.saturating_add(out_max), outl) - out_pos;
        assert!(st == if space == 0 { TINFLStatus::HasMoreOutput } else { TINFLStatus::NeedsMoreInput }, "OBL:epilogue.starved_with_more_input_announced_is_needs_more_input_unless_the_window_is_full [C04 C13]");
        assert!(c == 1, "OBL:epilogue.starved_call_consumes_all_its_input_nothing_handed_back [C13 C07 C06]");
        assert!(w == 0 && out == out0, "OBL:epilogue.starved_call_writes_nothing [C08]");
        assert!(r.state == ReadExtraBitsDistance && r.num_bits == nb0 + 8 && r.bit_buf == bb0 | ((inb[0] as BitBuffer) << nb0) && r.dist == dist0 && r.counter == counter0 && r.num_extra == 13,
            "OBL:epilogue.saved_registers_are_old_bits_plus_the_new_byte [C07]");
    }

    //@PLAYBACK@
}
