#[cfg(kani)]
#[allow(unused_imports, dead_code, unused_variables, unused_mut, clippy::all)]
mod verif_inflate_core {
    use super::*;

//@SPEC@

    // ------------------------------------------------------------------
    // helpers: fully symbolic decoder object (every register, every table, every code-size array)
    // ------------------------------------------------------------------
    const ALL_STATES: [State; 35] = [
        Start, ReadZlibCmf, ReadZlibFlg, ReadBlockHeader, BlockTypeNoCompression, RawHeader, RawMemcpy1, RawMemcpy2,
        ReadTableSizes, ReadHufflenTableCodeSize, ReadLitlenDistTablesCodeSize, ReadExtraBitsCodeSize, DecodeLitlen,
        WriteSymbol, ReadExtraBitsLitlen, DecodeDistance, ReadExtraBitsDistance, RawReadFirstByte, RawStoreFirstByte,
        WriteLenBytesToEnd, BlockDone, HuffDecodeOuterLoop1, HuffDecodeOuterLoop2, ReadAdler32, DoneForever,
        BlockTypeUnexpected, BadCodeSizeSum, BadDistOrLiteralTableLength, BadTotalSymbols, BadZlibHeader,
        DistanceOutOfBounds, BadRawLength, BadCodeSizeDistPrevLookup, InvalidLitlen, InvalidDist,
    ];
    const FAILURE_STATES: [State; 10] = [
        BlockTypeUnexpected, BadCodeSizeSum, BadDistOrLiteralTableLength, BadTotalSymbols, BadZlibHeader,
        DistanceOutOfBounds, BadRawLength, BadCodeSizeDistPrevLookup, InvalidLitlen, InvalidDist,
    ];
    fn any_state() -> State {
        let i: usize = kani::any();
        kani::assume(i < 35);
        ALL_STATES[i]
    }
    fn any_table() -> HuffmanTable {
        HuffmanTable { look_up: kani::any(), tree: kani::any() }
    }
    fn any_decompressor(state: State) -> DecompressorOxide {
        DecompressorOxide {
            state,
            num_bits: kani::any(),
            z_header0: kani::any(),
            z_header1: kani::any(),
            z_adler32: kani::any(),
            finish: kani::any(),
            block_type: kani::any(),
            check_adler32: kani::any(),
            dist: kani::any(),
            counter: kani::any(),
            num_extra: kani::any(),
            table_sizes: kani::any(),
            bit_buf: kani::any(),
            tables: [any_table(), any_table(), any_table()],
            code_size_literal: kani::any(),
            code_size_dist: kani::any(),
            code_size_huffman: kani::any(),
            raw_header: kani::any(),
            len_codes: kani::any(),
        }
    }
    /// Snapshot of every scalar register plus one element of every array at symbolic indices chosen before the
    /// call (sound for "all indices"; avoids cloning the 11 KB object, which costs CBMC gigabytes).
    #[derive(Clone, Copy, PartialEq, Eq)]
    struct Snap {
        state: State, num_bits: u32, z_header0: u32, z_header1: u32, z_adler32: u32, finish: u8, block_type: u8,
        check_adler32: u32, dist: u32, counter: u32, num_extra: u8, table_sizes: [u16; 3], bit_buf: BitBuffer,
        raw_header: [u8; 4], ix: [usize; 7], lu: i16, tr: i16, csl: u8, csd: u8, csh: u8, lc: u8,
    }
    fn snap_at(r: &DecompressorOxide, ix: [usize; 7]) -> Snap {
        Snap {
            state: r.state, num_bits: r.num_bits, z_header0: r.z_header0, z_header1: r.z_header1, z_adler32: r.z_adler32,
            finish: r.finish, block_type: r.block_type, check_adler32: r.check_adler32, dist: r.dist, counter: r.counter,
            num_extra: r.num_extra, table_sizes: r.table_sizes, bit_buf: r.bit_buf, raw_header: r.raw_header, ix,
            lu: r.tables[ix[0]].look_up[ix[1]], tr: r.tables[ix[0]].tree[ix[2]], csl: r.code_size_literal[ix[3]],
            csd: r.code_size_dist[ix[4]], csh: r.code_size_huffman[ix[5]], lc: r.len_codes[ix[6]],
        }
    }
    fn snap(r: &DecompressorOxide) -> Snap {
        let ix: [usize; 7] = kani::any();
        kani::assume(ix[0] < 3 && ix[1] < 1024 && ix[2] < MAX_HUFF_TREE_SIZE && ix[3] < 288 && ix[4] < 32 && ix[5] < 19 && ix[6] < 512);
        snap_at(r, ix)
    }
    fn same_decompressor(r: &DecompressorOxide, s: &Snap) -> bool { snap_at(r, s.ix) == *s }
    fn is_failure_state(s: State) -> bool {
        let mut k = 0;
        let mut r = false;
        while k < 10 { if FAILURE_STATES[k] == s { r = true; } k += 1; }
        r
    }
    /// update_adler32 contract model (real function: K-adler): identity on empty data, an injective-looking mix otherwise.
    fn model_adler(adler: u32, data: &[u8]) -> u32 {
        if data.is_empty() { adler } else { adler.wrapping_mul(31).wrapping_add(data.len() as u32).wrapping_add(data[0] as u32) ^ 0x5bd1_e995 }
    }

    // ------------------------------------------------------------------
    // K-tables : decoder constants against the RFC (symbolic index, complete)
    // ------------------------------------------------------------------
    #[kani::proof]
    fn k_inf_tables() {
        let i: usize = kani::any();
        kani::assume(i < 32);
        if i < 29 {
            assert!(LENGTH_BASE[i] == RFC_LEN_BASE[i], "OBL:tables.length_base_is_rfc [C03 C04]");
            assert!(LENGTH_EXTRA[i] == RFC_LEN_EXTRA[i], "OBL:tables.length_extra_is_rfc [C03 C04]");
        } else {
            // padding entries only exist so that masked indexing cannot go out of bounds; symbols > 285 are rejected
            // before use (arm HuffDecodeOuterLoop1 / decompress_fast): see k_arm_HuffDecodeOuterLoop1
            assert!(LENGTH_EXTRA[i] == 0, "OBL:tables.length_padding_no_extra_bits [C05]");
        }
        if i < 30 {
            assert!(DIST_BASE[i] == RFC_DIST_BASE[i], "OBL:tables.dist_base_is_rfc [C03 C04]");
            assert!(num_extra_bits_for_distance_code(i as u8) == RFC_DIST_EXTRA[i], "OBL:tables.dist_extra_is_rfc [C03 C04]");
        }
        if i < 19 {
            assert!(HUFFMAN_LENGTH_ORDER[i] == RFC_CL_ORDER[i], "OBL:tables.code_length_order_is_rfc [C03 C10]");
        }
        assert!(MIN_TABLE_SIZES[0] == 257 && MIN_TABLE_SIZES[1] == 1 && MIN_TABLE_SIZES[2] == 4, "OBL:tables.min_table_sizes_are_rfc [C03]");
        // max length / distance representable: 258 and 32768
        assert!(RFC_LEN_BASE[28] == 258 && RFC_DIST_BASE[29] as u32 + ((1u32 << RFC_DIST_EXTRA[29]) - 1) == 32768, "OBL:tables.max_len_258_max_dist_32768 [C03]");
    }

    #[kani::proof]
    fn k_start_static_table() {
        let mut r = any_decompressor(any_state());
        start_static_table(&mut r);
        let i: usize = kani::any();
        kani::assume(i < 288);
        assert!(r.table_sizes[LITLEN_TABLE] == 288 && r.table_sizes[DIST_TABLE] == 32, "OBL:static.table_sizes_288_32 [C03]");
        assert!(r.code_size_literal[i] == rfc_fixed_litlen_len(i), "OBL:static.litlen_lengths_are_rfc_fixed_code [C03]");
        assert!(i >= 32 || r.code_size_dist[i] == 5, "OBL:static.dist_lengths_all_5 [C03]");
    }

    // ------------------------------------------------------------------
    // K-inf-leaf : undo_bytes, end_of_input, validate_zlib_header (complete)
    // ------------------------------------------------------------------
    #[kani::proof]
    fn k_undo_bytes() {
        let mut l = LocalVars { bit_buf: kani::any(), num_bits: kani::any(), dist: kani::any(), counter: kani::any(), num_extra: kani::any() };
        let l0 = l;
        let max: u32 = kani::any();
        let res = undo_bytes(&mut l, max);
        assert!(res == core::cmp::min(l0.num_bits / 8, max), "OBL:undo.result_is_min_whole_bytes_max [C06]");
        assert!(l.num_bits == l0.num_bits - 8 * res, "OBL:undo.num_bits_reduced_by_8_res [C06]");
        assert!(l.bit_buf == l0.bit_buf && l.dist == l0.dist && l.counter == l0.counter && l.num_extra == l0.num_extra, "OBL:undo.frame [C06 C07]");
        if max >= l0.num_bits / 8 { assert!(l.num_bits < 8, "OBL:undo.unclamped_leaves_less_than_a_byte [C06 C19]"); }
    }

    #[kani::proof]
    fn k_end_of_input() {
        let flags: u32 = kani::any();
        match end_of_input(flags) {
            Action::End(TINFLStatus::NeedsMoreInput) => assert!(flags & TINFL_FLAG_HAS_MORE_INPUT != 0, "OBL:eoi.needs_more_input_iff_flag [C04 C13]"),
            Action::End(TINFLStatus::FailedCannotMakeProgress) => assert!(flags & TINFL_FLAG_HAS_MORE_INPUT == 0, "OBL:eoi.cannot_make_progress_iff_no_flag [C04 C13]"),
            _ => assert!(false, "OBL:eoi.only_two_outcomes [C04]"),
        }
    }

    #[kani::proof]
    fn k_validate_zlib_header() {
        let cmf: u32 = kani::any();
        let flg: u32 = kani::any();
        kani::assume(cmf < 256 && flg < 256); // both come from read_byte (u8) in arms ReadZlibCmf / ReadZlibFlg
        let flags: u32 = kani::any();
        let mask: usize = kani::any();
        // ring mode: mask = len.saturating_sub(1) < usize::MAX; flat mode: mask == usize::MAX
        kani::assume(if flags & TINFL_FLAG_USING_NON_WRAPPING_OUTPUT_BUF != 0 { mask == usize::MAX } else { mask < usize::MAX });
        let a = validate_zlib_header(cmf, flg, flags, mask);
        let fits = flags & TINFL_FLAG_USING_NON_WRAPPING_OUTPUT_BUF != 0 || mask + 1 >= (1usize << ((cmf >> 4) + 8));
        let ok = rfc_zlib_hdr_ok(cmf, flg) && fits;
        match a {
            Action::Jump(ReadBlockHeader) => assert!(ok, "OBL:zhdr.accepted_only_if_valid_and_window_fits [C04 C09]"),
            Action::Jump(BadZlibHeader) => assert!(!ok, "OBL:zhdr.rejected_only_if_invalid_or_window_too_big [C03 C09]"),
            _ => assert!(false, "OBL:zhdr.only_two_outcomes [C04 C09]"),
        }
        kani::cover!(ok, "COV:zhdr.some_accepted");
        kani::cover!(rfc_zlib_hdr_ok(cmf, flg) && !fits, "COV:zhdr.ring_too_small");
    }

    // ------------------------------------------------------------------
    // K-prologue : the real decompress_with_limit entered with bad geometry / in a terminal state.
    // Everything else symbolic (all registers and tables, flags, positions, budget).
    // ------------------------------------------------------------------
    const OUT_CAP: usize = 16;

    #[kani::proof]
    #[kani::stub(update_adler32, model_adler)]
    fn k_prologue_bad_geometry() {
        // the state is read only after the geometry check; a concrete terminal state keeps the (infeasible)
        // fall-through path cheap for symbolic execution. All other fields are symbolic.
        bad_geometry_body(DoneForever);
        bad_geometry_body(InvalidDist);
    }
    fn bad_geometry_body(s: State) {
        let mut r = any_decompressor(s);
        let r0 = snap(&r);
        let inb: [u8; 4] = kani::any();
        let inl: usize = kani::any();
        kani::assume(inl <= 4);
        let mut out: [u8; OUT_CAP] = kani::any();
        let out0 = out;
        let outl: usize = kani::any();
        kani::assume(outl <= OUT_CAP);
        let out_pos: usize = kani::any();
        let out_max: usize = kani::any();
        let flags: u32 = kani::any();
        let flat = flags & TINFL_FLAG_USING_NON_WRAPPING_OUTPUT_BUF != 0;
        let pow2 = matches!(outl, 0 | 1 | 2 | 4 | 8 | 16);
        let bad = (!flat && !pow2) || out_pos > outl;
        kani::assume(r.num_bits <= 63);
        let (st, c, w) = decompress_with_limit(&mut r, &inb[..inl], &mut out[..outl], out_pos, out_max, flags);
        if bad {
            assert!(st == TINFLStatus::BadParam && c == 0 && w == 0, "OBL:prologue.bad_geometry_is_badparam_0_0 [C05]");
            assert!(r.state == r0.state && r.num_bits == r0.num_bits && r.bit_buf == r0.bit_buf && r.counter == r0.counter
                && r.dist == r0.dist && r.num_extra == r0.num_extra && r.check_adler32 == r0.check_adler32
                && r.z_adler32 == r0.z_adler32 && r.z_header0 == r0.z_header0 && r.z_header1 == r0.z_header1
                && r.finish == r0.finish && r.block_type == r0.block_type, "OBL:prologue.bad_geometry_leaves_registers_untouched [C05]");
            assert!(out == out0, "OBL:prologue.bad_geometry_writes_nothing [C05 C08]");
        } else {
            assert!(st != TINFLStatus::BadParam, "OBL:prologue.usable_geometry_never_badparam [C05]");
        }
        kani::cover!(!flat && !pow2, "COV:prologue.not_pow2");
        kani::cover!(out_pos > outl, "COV:prologue.pos_past_end");
    }

    fn failure_absorbing_body(s: State) {
        let mut r = any_decompressor(s);
        kani::assume(r.num_bits <= 63);
        let r0 = snap(&r);
        let inb: [u8; 4] = kani::any();
        let inl: usize = kani::any();
        kani::assume(inl <= 4);
        let mut out: [u8; OUT_CAP] = kani::any();
        let out0 = out;
        let outl: usize = kani::any();
        kani::assume(outl <= OUT_CAP);
        let out_pos: usize = kani::any();
        let out_max: usize = kani::any();
        let flags: u32 = kani::any();
        let flat = flags & TINFL_FLAG_USING_NON_WRAPPING_OUTPUT_BUF != 0;
        kani::assume((flat || outl == 0 || outl & (outl - 1) == 0) && out_pos <= outl);
        let (st, c, w) = decompress_with_limit(&mut r, &inb[..inl], &mut out[..outl], out_pos, out_max, flags);
        assert!(st == TINFLStatus::Failed, "OBL:prologue.failed_stream_keeps_failing [C04 C05 C13]");
        assert!(c == 0 && w == 0, "OBL:prologue.failed_stream_consumes_and_writes_nothing [C05 C08]");
        assert!(r.state == s, "OBL:prologue.failure_state_absorbing [C04 C05]");
        assert!(out == out0, "OBL:prologue.failed_stream_output_untouched [C08]");
        assert!(r.check_adler32 == r0.check_adler32 && r.z_adler32 == r0.z_adler32, "OBL:prologue.failed_stream_checksums_untouched [C09]");
    }
    /// each of the 10 failure states with a concrete state value (a symbolic one makes CBMC expand all 25 arms)
    #[kani::proof]
    #[kani::stub(update_adler32, model_adler)]
    fn k_prologue_failure_absorbing_a() {
        failure_absorbing_body(BlockTypeUnexpected);
        failure_absorbing_body(BadCodeSizeSum);
        failure_absorbing_body(BadDistOrLiteralTableLength);
        failure_absorbing_body(BadTotalSymbols);
        failure_absorbing_body(BadZlibHeader);
    }
    #[kani::proof]
    #[kani::stub(update_adler32, model_adler)]
    fn k_prologue_failure_absorbing_b() {
        failure_absorbing_body(DistanceOutOfBounds);
        failure_absorbing_body(BadRawLength);
        failure_absorbing_body(BadCodeSizeDistPrevLookup);
        failure_absorbing_body(InvalidLitlen);
        failure_absorbing_body(InvalidDist);
    }

    #[kani::proof]
    #[kani::stub(update_adler32, model_adler)]
    fn k_prologue_done_forever() {
        let mut r = any_decompressor(DoneForever);
        kani::assume(r.num_bits <= 63);
        let r0 = snap(&r);
        let inb: [u8; 4] = kani::any();
        let inl: usize = kani::any();
        kani::assume(inl <= 4);
        let mut out: [u8; OUT_CAP] = kani::any();
        let out0 = out;
        let outl: usize = kani::any();
        kani::assume(outl <= OUT_CAP);
        let out_pos: usize = kani::any();
        let out_max: usize = kani::any();
        let flags: u32 = kani::any();
        let flat = flags & TINFL_FLAG_USING_NON_WRAPPING_OUTPUT_BUF != 0;
        kani::assume((flat || outl == 0 || outl & (outl - 1) == 0) && out_pos <= outl);
        let (st, c, w) = decompress_with_limit(&mut r, &inb[..inl], &mut out[..outl], out_pos, out_max, flags);
        assert!(w == 0 && out == out0, "OBL:prologue.done_writes_nothing [C08 C13]");
        // bytes after the end of the stream are never consumed; whole unread bytes in the bit buffer are given back
        assert!(c == 0, "OBL:prologue.done_consumes_nothing_more [C06]");
        assert!(r.state == DoneForever, "OBL:prologue.done_is_stable [C13]");
        let zlib = flags & TINFL_FLAG_PARSE_ZLIB_HEADER != 0;
        let ignore = flags & TINFL_FLAG_IGNORE_ADLER32 != 0;
        let mismatch = zlib && !ignore && r0.check_adler32 != r0.z_adler32;
        if mismatch {
            assert!(st == TINFLStatus::Adler32Mismatch, "OBL:prologue.wrong_trailer_is_adler32_mismatch [C09]");
        } else {
            assert!(st == TINFLStatus::Done, "OBL:prologue.done_when_trailer_matches_or_ignored [C09]");
        }
        assert!(r.check_adler32 == r0.check_adler32, "OBL:prologue.done_running_adler_unchanged_by_empty_update [C09 C16]");
        kani::cover!(mismatch, "COV:prologue.mismatch");
        kani::cover!(zlib && ignore && r0.check_adler32 != r0.z_adler32, "COV:prologue.ignored_mismatch");
    }

    //@PLAYBACK@
}
