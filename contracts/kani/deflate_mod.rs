#[cfg(kani)]
#[allow(unused_imports, dead_code, unused_variables, unused_mut, clippy::all)]
mod verif_deflate_mod {
    use super::*;
    use super::core::deflate_flags::*;
    use ::core::sync::atomic::{AtomicUsize, Ordering::Relaxed};

    static CALLS: AtomicUsize = AtomicUsize::new(0);
    static SUM_OUT: AtomicUsize = AtomicUsize::new(0);
    static FLAGS: AtomicUsize = AtomicUsize::new(0);

    /// M-compress with Finish (contract as in K-deflate): counts <= offered; Done or Okay; Okay with progress
    fn model_compress(d: &mut CompressorOxide, in_buf: &[u8], out_buf: &mut [u8], flush: TDEFLFlush) -> (TDEFLStatus, usize, usize) {
        assert!(flush == TDEFLFlush::Finish, "OBL:cvec.one_shot_compress_always_finishes [C01]");
        CALLS.fetch_add(1, Relaxed);
        FLAGS.store(d.params.flags as usize, Relaxed);
        // bounded stand-in: the stream ends by the fourth call at the latest (buffer sizes 2, 4, 8, 16)
        let done: bool = kani::any() || CALLS.load(Relaxed) >= 4;
        let i: usize = kani::any();
        let o: usize = kani::any();
        kani::assume(i <= in_buf.len() && o <= out_buf.len());
        // M-compress: with Finish and fresh compressor the status is Okay (output full) or Done; an Okay return has filled the output
        kani::assume(done || o == out_buf.len());
        SUM_OUT.fetch_add(o, Relaxed);
        (if done { TDEFLStatus::Done } else { TDEFLStatus::Okay }, i, o)
    }

    #[kani::proof]
    #[kani::stub(compress, model_compress)]
    #[kani::unwind(18)]
    fn k_compress_to_vec_growth() {
        let inb: [u8; 4] = kani::any();
        let inl: usize = kani::any();
        kani::assume(inl <= 4);
        let level: u8 = kani::any();
        let zlib: bool = kani::any();
        // at most 4 growth steps explored: the engine model may report "output full" repeatedly
        let v = compress_to_vec_inner(&inb[..inl], level, if zlib { 1 } else { 0 }, 0);
        assert!(v.len() == SUM_OUT.load(Relaxed), "OBL:cvec.result_is_exactly_the_bytes_the_engine_reported [C01]");
        let f = FLAGS.load(Relaxed) as u32;
        assert!((f & TDEFL_WRITE_ZLIB_HEADER != 0) == zlib, "OBL:cvec.zlib_variant_sets_the_header_flag [C01 C09]");
        assert!((f & TDEFL_FORCE_ALL_RAW_BLOCKS != 0) == (level == 0), "OBL:cvec.level_0_is_stored [C01 C10]");
        assert!(f == create_comp_flags_from_zip_params(if level > 10 { 10 } else { level as i32 }, if zlib { 1 } else { 0 }, 0), "OBL:cvec.levels_above_10_behave_as_10 [C01]");
        kani::cover!(CALLS.load(Relaxed) >= 3, "COV:cvec.grows");
    }

    //@PLAYBACK@
}
