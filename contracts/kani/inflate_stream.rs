#[cfg(kani)]
#[allow(unused_imports, dead_code, unused_variables, unused_mut, clippy::all)]
mod verif_inflate_stream {
    use super::*;
    use core::sync::atomic::{AtomicU32, AtomicUsize, Ordering::Relaxed};

    // ------------------------------------------------------------------
    // M-decompress : contract model of inflate::core::decompress used by the wrappers.
    // Every clause is either an obligation of the decoder units (K-prologue, K-arms, K-readbits; named in
    // DESIGN.md §3.3) or listed there as assumed (composition over a whole run).
    // The model records the flags and geometry of its last call so that harnesses can check the call sites.
    // ------------------------------------------------------------------
    static CALLS: AtomicUsize = AtomicUsize::new(0);
    static LAST_FLAGS: AtomicU32 = AtomicU32::new(0);
    static LAST_OUT_LEN: AtomicUsize = AtomicUsize::new(0);
    static LAST_OUT_POS: AtomicUsize = AtomicUsize::new(0);
    static LAST_IN_LEN: AtomicUsize = AtomicUsize::new(0);
    static SUM_IN: AtomicUsize = AtomicUsize::new(0);
    static SUM_OUT: AtomicUsize = AtomicUsize::new(0);

    fn any_tinfl_status() -> TINFLStatus {
        let s: u8 = kani::any();
        kani::assume(s < 7);
        match s {
            0 => TINFLStatus::FailedCannotMakeProgress,
            1 => TINFLStatus::BadParam,
            2 => TINFLStatus::Adler32Mismatch,
            3 => TINFLStatus::Failed,
            4 => TINFLStatus::Done,
            5 => TINFLStatus::NeedsMoreInput,
            _ => TINFLStatus::HasMoreOutput,
        }
    }

    fn model_decompress(r: &mut DecompressorOxide, in_buf: &[u8], out: &mut [u8], out_pos: usize, flags: u32) -> (TINFLStatus, usize, usize) {
        use inflate_flags::*;
        // ---- preconditions, asserted at every call site (obligations of the caller) ----
        let flat = flags & TINFL_FLAG_USING_NON_WRAPPING_OUTPUT_BUF != 0;
        assert!(out_pos <= out.len(), "OBL:inflate.call_pre_out_pos_in_range [C05 C13]");
        assert!(flat || out.len() == TINFL_LZ_DICT_SIZE, "OBL:inflate.call_pre_ring_is_32k_window [C03 C13]");
        CALLS.fetch_add(1, Relaxed);
        LAST_FLAGS.store(flags, Relaxed);
        LAST_OUT_LEN.store(out.len(), Relaxed);
        LAST_OUT_POS.store(out_pos, Relaxed);
        LAST_IN_LEN.store(in_buf.len(), Relaxed);
        // ---- postconditions (contract of decompress) ----
        let st = any_tinfl_status();
        let c: usize = kani::any();
        let w: usize = kani::any();
        kani::assume(c <= in_buf.len() && w <= out.len() - out_pos);
        // geometry was valid, so never BadParam (K-prologue: usable_geometry_never_badparam)
        kani::assume(st != TINFLStatus::BadParam);
        // starved statuses are truthful (K-readbits / arms: end_of_input only when all input is consumed)
        if st == TINFLStatus::NeedsMoreInput { kani::assume(c == in_buf.len() && flags & TINFL_FLAG_HAS_MORE_INPUT != 0); }
        if st == TINFLStatus::FailedCannotMakeProgress { kani::assume(c == in_buf.len() && flags & TINFL_FLAG_HAS_MORE_INPUT == 0); }
        // has-more-output only when the granted window is completely full (arms: bytes_left()==0)
        if st == TINFLStatus::HasMoreOutput { kani::assume(out_pos + w == out.len()); }
        // a checksum verdict exists only in zlib mode without the ignore flag
        if st == TINFLStatus::Adler32Mismatch { kani::assume(flags & TINFL_FLAG_PARSE_ZLIB_HEADER != 0 && flags & TINFL_FLAG_IGNORE_ADLER32 == 0); }
        SUM_IN.fetch_add(c, Relaxed);
        SUM_OUT.fetch_add(w, Relaxed);
        (st, c, w)
    }

    fn any_format() -> DataFormat {
        let s: u8 = kani::any();
        kani::assume(s < 3);
        match s { 0 => DataFormat::Zlib, 1 => DataFormat::ZLibIgnoreChecksum, _ => DataFormat::Raw }
    }
    fn any_mzflush() -> MZFlush {
        let s: u8 = kani::any();
        kani::assume(s < 6);
        match s { 0 => MZFlush::None, 1 => MZFlush::Partial, 2 => MZFlush::Sync, 3 => MZFlush::Full, 4 => MZFlush::Finish, _ => MZFlush::Block }
    }

    /// Representation invariant of InflateState between calls (established by new/reset, preserved by inflate —
    /// the preservation is itself an obligation below).
    fn inv(s: &InflateState) -> bool {
        s.dict_ofs < TINFL_LZ_DICT_SIZE && s.dict_avail <= TINFL_LZ_DICT_SIZE && s.dict_ofs + s.dict_avail <= TINFL_LZ_DICT_SIZE
    }

    const CAP: usize = 3;

    #[kani::proof]
    #[kani::stub(decompress, model_decompress)]
    #[kani::unwind(9)]
    fn k_inflate_protocol() {
        let fmt = any_format();
        let mut s = InflateState::new(fmt);
        s.dict_ofs = kani::any();
        s.dict_avail = kani::any();
        s.first_call = kani::any();
        s.has_flushed = kani::any();
        s.last_status = any_tinfl_status();
        kani::assume(inv(&s));
        // reachable histories: window bytes are pending only after a call that produced them
        kani::assume(!s.first_call || (s.dict_avail == 0 && !s.has_flushed && s.last_status == TINFLStatus::NeedsMoreInput));
        let (ofs0, avail0, first0, flushed0, last0) = (s.dict_ofs, s.dict_avail, s.first_call, s.has_flushed, s.last_status);
        let inb: [u8; CAP] = kani::any();
        let inl: usize = kani::any();
        kani::assume(inl <= CAP);
        let mut outb: [u8; CAP] = kani::any();
        let outl: usize = kani::any();
        kani::assume(outl <= CAP);
        let flush = any_mzflush();

        let res = inflate(&mut s, &inb[..inl], &mut outb[..outl], flush);
        let calls = CALLS.load(Relaxed);
        let fl = LAST_FLAGS.load(Relaxed);

        // ---- counts never exceed the offered buffers (C13) ----
        assert!(res.bytes_consumed <= inl && res.bytes_written <= outl, "OBL:inflate.counts_le_offered [C05 C13]");
        assert!(inv(&s), "OBL:inflate.window_invariant_preserved [C05 C13]");
        assert!(res.bytes_consumed == SUM_IN.load(Relaxed), "OBL:inflate.consumed_is_sum_of_engine_counts [C06 C13]");

        use inflate_flags::*;
        // ---- full flush is a stream error, with no state change (C13) ----
        if flush == MZFlush::Full {
            assert!(res.status == Err(MZError::Stream) && res.bytes_consumed == 0 && res.bytes_written == 0 && calls == 0, "OBL:inflate.full_flush_is_stream_error [C13]");
            assert!(s.dict_ofs == ofs0 && s.dict_avail == avail0 && s.first_call == first0 && s.has_flushed == flushed0 && s.last_status == last0, "OBL:inflate.full_flush_no_state_change [C13]");
            return;
        }
        // ---- sticky errors (C13) ----
        if last0 == TINFLStatus::FailedCannotMakeProgress {
            assert!(res.status == Err(MZError::Buf) && res.bytes_consumed == 0 && res.bytes_written == 0 && calls == 0, "OBL:inflate.cannot_make_progress_is_sticky_buf_error [C13]");
            return;
        }
        if (last0 as i32) < 0 {
            assert!(res.status == Err(MZError::Data) && res.bytes_consumed == 0 && res.bytes_written == 0 && calls == 0, "OBL:inflate.data_error_is_sticky [C13 C04]");
            assert!(s.last_status == last0, "OBL:inflate.data_error_stays_latched [C13]");
            return;
        }
        if flushed0 && flush != MZFlush::Finish {
            assert!(res.status == Err(MZError::Stream) && calls == 0 && res.bytes_written == 0, "OBL:inflate.non_finish_after_finish_is_stream_error [C13]");
            return;
        }
        assert!(s.has_flushed == (flushed0 || flush == MZFlush::Finish) && !s.first_call, "OBL:inflate.flags_latched [C13]");

        // ---- data format -> decoder flags (C09) ----
        if calls > 0 {
            let want_zlib = fmt != DataFormat::Raw;
            assert!((fl & TINFL_FLAG_PARSE_ZLIB_HEADER != 0) == want_zlib, "OBL:inflate.zlib_formats_parse_header [C09]");
            assert!((fl & TINFL_FLAG_IGNORE_ADLER32 != 0) == (fmt != DataFormat::Zlib), "OBL:inflate.checksum_verified_only_for_zlib_format [C09]");
            assert!((fl & TINFL_FLAG_HAS_MORE_INPUT != 0) == (flush != MZFlush::Finish), "OBL:inflate.more_input_announced_unless_finish [C13 C04]");
        }

        // ---- first call with Finish: decode straight into the caller's buffer (C13) ----
        if first0 && flush == MZFlush::Finish {
            assert!(calls == 1 && fl & TINFL_FLAG_USING_NON_WRAPPING_OUTPUT_BUF != 0 && LAST_OUT_LEN.load(Relaxed) == outl && LAST_OUT_POS.load(Relaxed) == 0,
                "OBL:inflate.first_call_finish_decodes_into_caller_buffer [C13]");
            assert!(res.bytes_written == SUM_OUT.load(Relaxed), "OBL:inflate.first_call_finish_counts [C13]");
            match res.status {
                Ok(MZStatus::StreamEnd) => assert!(s.last_status == TINFLStatus::Done, "OBL:inflate.first_call_finish_stream_end_iff_done [C13]"),
                Err(MZError::Buf) => assert!(s.last_status == TINFLStatus::FailedCannotMakeProgress || s.last_status == TINFLStatus::Failed, "OBL:inflate.finish_on_truncated_stream_is_buf_error_and_poisons [C13]"),
                Err(MZError::Data) => assert!((s.last_status as i32) < 0, "OBL:inflate.first_call_finish_data_error [C13]"),
                _ => assert!(false, "OBL:inflate.first_call_finish_only_three_outcomes [C13]"),
            }
            return;
        }

        // ---- pending window bytes are delivered before any more decoding (C13) ----
        if avail0 != 0 {
            let n = core::cmp::min(avail0, outl);
            assert!(calls == 0 && res.bytes_consumed == 0 && res.bytes_written == n, "OBL:inflate.pending_window_bytes_first [C13]");
            assert!(s.dict_avail == avail0 - n && s.dict_ofs == (ofs0 + n) & (TINFL_LZ_DICT_SIZE - 1), "OBL:inflate.pending_window_bookkeeping [C13]");
            let end = last0 == TINFLStatus::Done && s.dict_avail == 0;
            assert!(res.status == Ok(if end { MZStatus::StreamEnd } else { MZStatus::Ok }), "OBL:inflate.stream_end_exactly_when_done_and_all_delivered [C13]");
            return;
        }

        // ---- the decode loop (C13): ring mode, flags, exits ----
        assert!(calls >= 1, "OBL:inflate.loop_calls_engine [C13]");
        assert!(fl & TINFL_FLAG_USING_NON_WRAPPING_OUTPUT_BUF == 0 && LAST_OUT_LEN.load(Relaxed) == TINFL_LZ_DICT_SIZE, "OBL:inflate.loop_uses_ring_window [C13 C07]");
        assert!(res.bytes_written + s.dict_avail == SUM_OUT.load(Relaxed), "OBL:inflate.every_decoded_byte_delivered_or_pending [C13 C07]");
        let last = s.last_status;
        match res.status {
            Ok(MZStatus::StreamEnd) => assert!(last == TINFLStatus::Done && s.dict_avail == 0, "OBL:inflate.stream_end_only_when_done_and_drained [C13]"),
            Ok(MZStatus::Ok) => {
                assert!(flush != MZFlush::Finish, "OBL:inflate.finish_never_returns_plain_ok [C13]");
                assert!((last as i32) >= 0 && (last != TINFLStatus::Done || s.dict_avail != 0), "OBL:inflate.ok_means_not_finished [C13]");
                // progress: a call given non-empty input and output makes progress or ... (terminal results handled above)
                if inl > 0 && outl > 0 {
                    assert!(res.bytes_consumed > 0 || res.bytes_written > 0 || s.dict_avail != 0 || last == TINFLStatus::HasMoreOutput || last == TINFLStatus::NeedsMoreInput,
                        "OBL:inflate.ok_with_buffers_made_progress_or_engine_starved [C13]");
                }
            }
            Err(MZError::Buf) => {
                let starved = last == TINFLStatus::NeedsMoreInput && inl == 0;
                let truncated = last == TINFLStatus::FailedCannotMakeProgress;
                let finish_no_room = flush == MZFlush::Finish && (last as i32) >= 0 && ((last == TINFLStatus::Done && s.dict_avail != 0) || (last != TINFLStatus::Done && res.bytes_written == outl));
                assert!(starved || truncated || finish_no_room, "OBL:inflate.buf_error_only_for_starved_truncated_or_no_room_on_finish [C13]");
                if truncated { assert!(flush == MZFlush::Finish, "OBL:inflate.truncated_only_reported_under_finish [C13 C04]"); }
            }
            Err(MZError::Data) => assert!((last as i32) < 0 && last != TINFLStatus::FailedCannotMakeProgress, "OBL:inflate.data_error_only_on_failed_engine [C13 C04]"),
            _ => assert!(false, "OBL:inflate.loop_only_four_outcomes [C13]"),
        }
        kani::cover!(res.status == Ok(MZStatus::StreamEnd), "COV:inflate.stream_end");
        kani::cover!(res.status == Ok(MZStatus::Ok) && calls >= 2, "COV:inflate.loop_iterates");
        kani::cover!(res.status == Err(MZError::Buf) && last == TINFLStatus::NeedsMoreInput, "COV:inflate.starved");
    }

    // ------------------------------------------------------------------
    // push_dict_out: the ring hand-off (also proved unbounded in Verus: V-pushdict)
    // ------------------------------------------------------------------
    #[kani::proof]
    #[kani::unwind(9)]
    fn k_push_dict_out() {
        let mut s = InflateState::new(DataFormat::Raw);
        s.dict_ofs = kani::any();
        s.dict_avail = kani::any();
        kani::assume(inv(&s));
        let (ofs0, avail0) = (s.dict_ofs, s.dict_avail);
        let mut outb: [u8; 4] = kani::any();
        let out0 = outb;
        let outl: usize = kani::any();
        kani::assume(outl <= 4);
        let n;
        let rest_len;
        {
            let mut next_out: &mut [u8] = &mut outb[..outl];
            n = push_dict_out(&mut s, &mut next_out);
            rest_len = next_out.len();
        }
        assert!(n == core::cmp::min(avail0, outl), "OBL:pushdict.n_is_min_avail_space [C13 C05]");
        assert!(rest_len == outl - n, "OBL:pushdict.output_slice_advanced_by_n [C13]");
        assert!(s.dict_avail == avail0 - n && s.dict_ofs == (ofs0 + n) & (TINFL_LZ_DICT_SIZE - 1) && inv(&s), "OBL:pushdict.bookkeeping_and_invariant [C13 C05]");
        let k: usize = kani::any();
        kani::assume(k < 4);
        if k < n {
            // window content is concrete zero here; the byte-for-byte clause over a symbolic window is V-pushdict (Verus)
            assert!(outb[k] == 0, "OBL:pushdict.copies_window_bytes [C13 C07]");
        } else {
            assert!(outb[k] == out0[k], "OBL:pushdict.frame_rest_of_output_untouched [C08 C13]");
        }
    }

    // ------------------------------------------------------------------
    // K-inf-reset : the three reset policies against a fresh InflateState, from a symbolic pre-state
    // ------------------------------------------------------------------
    fn havoc_state(s: &mut InflateState) -> usize {
        s.dict_ofs = kani::any();
        s.dict_avail = kani::any();
        s.first_call = kani::any();
        s.has_flushed = kani::any();
        s.last_status = any_tinfl_status();
        s.data_format = any_format();
        let i: usize = kani::any();
        kani::assume(i < TINFL_LZ_DICT_SIZE);
        s.dict[i] = kani::any();
        i
    }
    fn scalars_fresh(s: &InflateState) -> bool {
        s.dict_ofs == 0 && s.dict_avail == 0 && s.first_call && !s.has_flushed && s.last_status == TINFLStatus::NeedsMoreInput
    }
    #[kani::proof]
    fn k_inflate_reset_policies() {
        // ZeroReset / FullReset: everything a fresh object has, including a zeroed window
        {
            let mut s = InflateState::new(DataFormat::Raw);
            let i = havoc_state(&mut s);
            let fmt0 = s.data_format;
            s.reset_as(ZeroReset);
            assert!(scalars_fresh(&s) && s.data_format == fmt0, "OBL:reset.zero_reset_restores_wrapper_fields_keeps_format [C18]");
            assert!(s.dict[i] == 0, "OBL:reset.zero_reset_clears_window [C18]");
        }
        {
            let mut s = InflateState::new(DataFormat::Raw);
            let i = havoc_state(&mut s);
            let fmt = any_format();
            s.reset(fmt);
            assert!(scalars_fresh(&s) && s.data_format == fmt, "OBL:reset.full_reset_restores_wrapper_fields_sets_format [C18]");
            assert!(s.dict[i] == 0, "OBL:reset.full_reset_clears_window [C18]");
        }
        // MinReset
        {
            let mut s = InflateState::new(DataFormat::Raw);
            let i = havoc_state(&mut s);
            s.reset_as(MinReset);
            assert!(scalars_fresh(&s), "OBL:reset.min_reset_restores_wrapper_fields [C18]");
            // the decoder restarts at Start; its registers are re-initialised by the Start arm (k_arm_start_and_zlib_header)
            assert!(s.dict[i] == 0, "OBL:reset.min_reset_clears_window [C18]");
        }
    }

    /// the format a reset asks for is the format the next stream is decoded with -- for every pair of formats, also the
    /// two zlib flavours that differ only in whether the Adler-32 trailer is verified; the other policies keep it
    #[kani::proof]
    fn k_reset_format_selection() {
        let mut s = InflateState::new(any_format());
        let _ = havoc_state(&mut s);
        let before = s.data_format;
        let want = any_format();
        let which: u8 = kani::any();
        match which % 4 {
            0 => { s.reset_as(FullReset(want)); assert!(s.data_format == want, "OBL:reset.full_reset_selects_exactly_the_requested_format [C09 C16 C18]"); }
            1 => { s.reset(want); assert!(s.data_format == want, "OBL:reset.reset_selects_exactly_the_requested_format [C09 C16 C18]"); }
            2 => { s.reset_as(ZeroReset); assert!(s.data_format == before, "OBL:reset.zero_reset_keeps_the_format [C09 C18]"); }
            _ => { s.reset_as(MinReset); assert!(s.data_format == before, "OBL:reset.min_reset_keeps_the_format [C09 C18]"); }
        }
        assert!(scalars_fresh(&s), "OBL:reset.wrapper_scalars_fresh_after_any_policy [C18 C13]");
        kani::cover!(which % 4 == 0 && before == DataFormat::ZLibIgnoreChecksum && want == DataFormat::Zlib, "COV:reset.ignore_checksum_to_zlib");
    }

    //@PLAYBACK@
}
