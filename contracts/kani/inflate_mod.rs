#[cfg(kani)]
#[allow(unused_imports, dead_code, unused_variables, unused_mut, clippy::all)]
mod verif_inflate_mod {
    use super::*;
    use ::core::sync::atomic::{AtomicUsize, Ordering::Relaxed};

    static CALLS: AtomicUsize = AtomicUsize::new(0);
    static MAX_OUT_LEN: AtomicUsize = AtomicUsize::new(0);
    static SUM_OUT: AtomicUsize = AtomicUsize::new(0);
    static SUM_IN: AtomicUsize = AtomicUsize::new(0);
    static LAST_STATUS: AtomicUsize = AtomicUsize::new(99);

    fn any_status() -> TINFLStatus {
        let s: u8 = kani::any();
        kani::assume(s < 6);
        match s {
            0 => TINFLStatus::FailedCannotMakeProgress,
            1 => TINFLStatus::Adler32Mismatch,
            2 => TINFLStatus::Failed,
            3 => TINFLStatus::Done,
            4 => TINFLStatus::NeedsMoreInput,
            _ => TINFLStatus::HasMoreOutput,
        }
    }
    /// M-decompress (same contract as in K-inflate), flat mode
    fn model_decompress(r: &mut DecompressorOxide, in_buf: &[u8], out: &mut [u8], out_pos: usize, flags: u32) -> (TINFLStatus, usize, usize) {
        assert!(out_pos <= out.len(), "OBL:vec.call_pre_out_pos_in_range [C05 C08]");
        assert!(flags & inflate_flags::TINFL_FLAG_USING_NON_WRAPPING_OUTPUT_BUF != 0 && flags & inflate_flags::TINFL_FLAG_HAS_MORE_INPUT == 0, "OBL:vec.one_shot_decode_is_flat_and_announces_no_more_input [C03 C04]");
        CALLS.fetch_add(1, Relaxed);
        if out.len() > MAX_OUT_LEN.load(Relaxed) { MAX_OUT_LEN.store(out.len(), Relaxed); }
        let st = any_status();
        let c: usize = kani::any();
        let w: usize = kani::any();
        kani::assume(c <= in_buf.len() && w <= out.len() - out_pos);
        kani::assume(st != TINFLStatus::NeedsMoreInput); // the flag is not set (K-arms: needs_more_input only with the flag)
        // a decoder at Start given no input at all starves (arms Start / ReadZlibCmf / ReadBlockHeader: *_starved clauses)
        if in_buf.is_empty() && CALLS.load(Relaxed) == 1 { kani::assume(st == TINFLStatus::FailedCannotMakeProgress); }
        if st == TINFLStatus::HasMoreOutput { kani::assume(out_pos + w == out.len()); }
        SUM_IN.fetch_add(c, Relaxed);
        SUM_OUT.fetch_add(w, Relaxed);
        LAST_STATUS.store(st as i8 as usize, Relaxed);
        (st, c, w)
    }

    #[kani::proof]
    #[kani::stub(decompress, model_decompress)]
    #[kani::unwind(10)]
    fn k_decompress_to_vec_limit() {
        let inb: [u8; 3] = kani::any();
        let inl: usize = kani::any();
        kani::assume(inl <= 3);
        let flags: u32 = if kani::any() { inflate_flags::TINFL_FLAG_PARSE_ZLIB_HEADER } else { 0 };
        let limit: usize = kani::any();
        kani::assume(limit <= 8);
        let r = decompress_to_vec_inner(&inb[..inl], flags, limit);
        assert!(MAX_OUT_LEN.load(Relaxed) <= limit, "OBL:vec.buffer_never_grows_past_the_limit [C08]");
        let total = SUM_OUT.load(Relaxed);
        match r {
            Ok(v) => {
                assert!(LAST_STATUS.load(Relaxed) == TINFLStatus::Done as i8 as usize, "OBL:vec.ok_only_when_the_stream_is_done [C03 C04]");
                assert!(v.len() == total && v.len() <= limit, "OBL:vec.returns_exactly_the_decoded_bytes_within_the_limit [C01 C08]");
            }
            Err(e) => {
                assert!(e.status != TINFLStatus::Done && e.status as i8 as usize == LAST_STATUS.load(Relaxed), "OBL:vec.error_carries_the_decoder_status [C04 C08]");
                assert!(e.output.len() <= limit, "OBL:vec.error_output_within_the_limit [C08]");
                if e.status == TINFLStatus::HasMoreOutput {
                    assert!(e.output.len() == limit && total == limit, "OBL:vec.limit_exceeded_returns_the_decoded_prefix_of_limit_bytes [C08]");
                }
            }
        }
        kani::cover!(CALLS.load(Relaxed) >= 3, "COV:vec.grows_twice");
        kani::cover!(LAST_STATUS.load(Relaxed) == TINFLStatus::Done as i8 as usize && total == limit && limit > 0, "COV:vec.exact_fit");
    }

    // ------------------------------------------------------------------
    // decompress_slice_iter_to_slice: the decoder is driven once per input slice. EVERY call (not just the first) must
    // carry the caller's format/checksum choice -- the decoder consults the zlib flag again when it leaves the last
    // block and when it compares the trailer -- and "more input follows" exactly when another slice follows.
    // ------------------------------------------------------------------
    static IT_N: AtomicUsize = AtomicUsize::new(0);
    static IT_FLAGS: [AtomicUsize; 3] = [AtomicUsize::new(0), AtomicUsize::new(0), AtomicUsize::new(0)];
    static IT_POS: [AtomicUsize; 3] = [AtomicUsize::new(0), AtomicUsize::new(0), AtomicUsize::new(0)];
    static IT_LEN: [AtomicUsize; 3] = [AtomicUsize::new(0), AtomicUsize::new(0), AtomicUsize::new(0)];
    static IT_OUT: AtomicUsize = AtomicUsize::new(0);
    static IT_LAST: AtomicUsize = AtomicUsize::new(99);
    fn model_decompress_iter(r: &mut DecompressorOxide, in_buf: &[u8], out: &mut [u8], out_pos: usize, flags: u32) -> (TINFLStatus, usize, usize) {
        let n = IT_N.fetch_add(1, Relaxed);
        assert!(n < 3, "OBL:sliceiter.at_most_one_call_per_slice [C07]");
        assert!(out_pos <= out.len() && out_pos == IT_OUT.load(Relaxed), "OBL:sliceiter.output_continues_where_the_previous_slice_stopped [C07 C08]");
        IT_FLAGS[n].store(flags as usize, Relaxed); IT_POS[n].store(out_pos, Relaxed); IT_LEN[n].store(in_buf.len(), Relaxed);
        let st = any_status();
        let c: usize = kani::any();
        let w: usize = kani::any();
        kani::assume(c <= in_buf.len() && w <= out.len() - out_pos);
        if flags & inflate_flags::TINFL_FLAG_HAS_MORE_INPUT == 0 { kani::assume(st != TINFLStatus::NeedsMoreInput); }
        if st == TINFLStatus::NeedsMoreInput { kani::assume(c == in_buf.len()); }
        IT_OUT.fetch_add(w, Relaxed);
        IT_LAST.store(st as i8 as usize, Relaxed);
        (st, c, w)
    }
    #[kani::proof]
    #[kani::stub(decompress, model_decompress_iter)]
    #[kani::unwind(6)]
    fn k_decompress_slice_iter() {
        use inflate_flags::*;
        let data: [u8; 6] = kani::any();
        let (a, b): (usize, usize) = (kani::any(), kani::any());
        kani::assume(a <= b && b <= 6);
        let nslices: usize = kani::any();
        kani::assume(nslices <= 3);
        let slices: [&[u8]; 3] = [&data[..a], &data[a..b], &data[b..]];
        let zlib: bool = kani::any();
        let ignore: bool = kani::any();
        let mut out = [0u8; 8];
        let r = decompress_slice_iter_to_slice(&mut out[..], slices[..nslices].iter().copied(), zlib, ignore);
        let n = IT_N.load(Relaxed);
        let mut i = 0;
        while i < 3 {
            if i < n {
                let f = IT_FLAGS[i].load(Relaxed) as u32;
                assert!((f & TINFL_FLAG_PARSE_ZLIB_HEADER != 0) == zlib, "OBL:sliceiter.every_call_carries_the_zlib_choice [C09 C07]");
                assert!((f & TINFL_FLAG_IGNORE_ADLER32 != 0) == ignore, "OBL:sliceiter.every_call_carries_the_checksum_choice [C09 C16]");
                assert!(f & TINFL_FLAG_USING_NON_WRAPPING_OUTPUT_BUF != 0, "OBL:sliceiter.output_is_flat [C03 C08]");
                assert!((f & TINFL_FLAG_HAS_MORE_INPUT != 0) == (i + 1 < nslices), "OBL:sliceiter.more_input_announced_iff_another_slice_follows [C04 C07]");
                assert!(IT_LEN[i].load(Relaxed) == slices[i].len(), "OBL:sliceiter.slices_offered_in_order_and_whole [C07]");
            }
            i += 1;
        }
        match r {
            Ok(len) => assert!(IT_LAST.load(Relaxed) == TINFLStatus::Done as i8 as usize && len == IT_OUT.load(Relaxed), "OBL:sliceiter.ok_only_when_done_with_the_total_length [C03 C04 C09]"),
            Err(e) => {
                assert!(e != TINFLStatus::Done, "OBL:sliceiter.error_is_never_done [C04]");
                if n == 0 { assert!(e == TINFLStatus::FailedCannotMakeProgress, "OBL:sliceiter.no_slices_at_all_is_cannot_make_progress [C04]"); }
                else { assert!(e as i8 as usize == IT_LAST.load(Relaxed), "OBL:sliceiter.error_is_the_decoder_status [C04 C09]"); }
            }
        }
        kani::cover!(n == 3 && r.is_ok(), "COV:sliceiter.three_slices_done");
        kani::cover!(n == 2 && zlib, "COV:sliceiter.two_slices_zlib");
    }

    //@PLAYBACK@
}
