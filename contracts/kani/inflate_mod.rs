#[cfg(kani)]
#[allow(unused_imports, dead_code, unused_variables, unused_mut, clippy::all)]
mod verif_inflate_mod {
    use super::*;
    use ::core::sync::atomic::{AtomicUsize, Ordering::Relaxed};

    static CALLS: AtomicUsize = AtomicUsize::new(0);
    static MAX_OUT_LEN: AtomicUsize = AtomicUsize::new(0);
    static SUM_OUT: AtomicUsize = AtomicUsize::new(0);
    static SUM_IN: AtomicUsize = AtomicUsize::new(0);
    static LAST_STATUS: AtomicUsize = AtomicUsize::new(99);

    fn any_status() -> TINFLStatus {
        let s: u8 = kani::any();
        kani::assume(s < 6);
        match s {
            0 => TINFLStatus::FailedCannotMakeProgress,
            1 => TINFLStatus::Adler32Mismatch,
            2 => TINFLStatus::Failed,
            3 => TINFLStatus::Done,
            4 => TINFLStatus::NeedsMoreInput,
            _ => TINFLStatus::HasMoreOutput,
        }
    }
    /// M-decompress (same contract as in K-inflate), flat mode
    fn model_decompress(r: &mut DecompressorOxide, in_buf: &[u8], out: &mut [u8], out_pos: usize, flags: u32) -> (TINFLStatus, usize, usize) {
        assert!(out_pos <= out.len(), "OBL:vec.call_pre_out_pos_in_range [C05 C08]");
        assert!(flags & inflate_flags::TINFL_FLAG_USING_NON_WRAPPING_OUTPUT_BUF != 0 && flags & inflate_flags::TINFL_FLAG_HAS_MORE_INPUT == 0, "OBL:vec.one_shot_decode_is_flat_and_announces_no_more_input [C03 C04]");
        CALLS.fetch_add(1, Relaxed);
        if out.len() > MAX_OUT_LEN.load(Relaxed) { MAX_OUT_LEN.store(out.len(), Relaxed); }
        let st = any_status();
        let c: usize = kani::any();
        let w: usize = kani::any();
        kani::assume(c <= in_buf.len() && w <= out.len() - out_pos);
        kani::assume(st != TINFLStatus::NeedsMoreInput); // the flag is not set (K-arms: needs_more_input only with the flag)
        // a decoder at Start given no input at all starves (arms Start / ReadZlibCmf / ReadBlockHeader: *_starved clauses)
        if in_buf.is_empty() && CALLS.load(Relaxed) == 1 { kani::assume(st == TINFLStatus::FailedCannotMakeProgress); }
        if st == TINFLStatus::HasMoreOutput { kani::assume(out_pos + w == out.len()); }
        SUM_IN.fetch_add(c, Relaxed);
        SUM_OUT.fetch_add(w, Relaxed);
        LAST_STATUS.store(st as i8 as usize, Relaxed);
        (st, c, w)
    }

    #[kani::proof]
    #[kani::stub(decompress, model_decompress)]
    #[kani::unwind(10)]
    fn k_decompress_to_vec_limit() {
        let inb: [u8; 3] = kani::any();
        let inl: usize = kani::any();
        kani::assume(inl <= 3);
        let flags: u32 = if kani::any() { inflate_flags::TINFL_FLAG_PARSE_ZLIB_HEADER } else { 0 };
        let limit: usize = kani::any();
        kani::assume(limit <= 8);
        let r = decompress_to_vec_inner(&inb[..inl], flags, limit);
        assert!(MAX_OUT_LEN.load(Relaxed) <= limit, "OBL:vec.buffer_never_grows_past_the_limit [C08]");
        let total = SUM_OUT.load(Relaxed);
        match r {
            Ok(v) => {
                assert!(LAST_STATUS.load(Relaxed) == TINFLStatus::Done as i8 as usize, "OBL:vec.ok_only_when_the_stream_is_done [C03 C04]");
                assert!(v.len() == total && v.len() <= limit, "OBL:vec.returns_exactly_the_decoded_bytes_within_the_limit [C01 C08]");
            }
            Err(e) => {
                assert!(e.status != TINFLStatus::Done && e.status as i8 as usize == LAST_STATUS.load(Relaxed), "OBL:vec.error_carries_the_decoder_status [C04 C08]");
                assert!(e.output.len() <= limit, "OBL:vec.error_output_within_the_limit [C08]");
                if e.status == TINFLStatus::HasMoreOutput {
                    assert!(e.output.len() == limit && total == limit, "OBL:vec.limit_exceeded_returns_the_decoded_prefix_of_limit_bytes [C08]");
                }
            }
        }
        kani::cover!(CALLS.load(Relaxed) >= 3, "COV:vec.grows_twice");
        kani::cover!(LAST_STATUS.load(Relaxed) == TINFLStatus::Done as i8 as usize && total == limit && limit > 0, "COV:vec.exact_fit");
    }

    //@PLAYBACK@
}
