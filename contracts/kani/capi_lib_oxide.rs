#[cfg(kani)]
#[allow(unused_imports, dead_code, unused_variables, unused_mut, clippy::all)]
mod verif_capi_lib_oxide {
    use super::*;
    use crate::c_export::mz_stream;
    use core::sync::atomic::{AtomicUsize, AtomicI32, Ordering::Relaxed};

    // recording contract models of the Rust streaming calls (their own contracts: K-inflate / K-deflate)
    static CALLS: AtomicUsize = AtomicUsize::new(0);
    static IN_PTR: AtomicUsize = AtomicUsize::new(0);
    static IN_LEN: AtomicUsize = AtomicUsize::new(0);
    static OUT_PTR: AtomicUsize = AtomicUsize::new(0);
    static OUT_LEN: AtomicUsize = AtomicUsize::new(0);
    static CONSUMED: AtomicUsize = AtomicUsize::new(0);
    static WRITTEN: AtomicUsize = AtomicUsize::new(0);
    static STATUS: AtomicI32 = AtomicI32::new(0);
    static FLUSH: AtomicI32 = AtomicI32::new(-1);

    fn any_result() -> MZResult {
        let k: u8 = kani::any();
        match k % 6 {
            0 => Ok(MZStatus::Ok),
            1 => Ok(MZStatus::StreamEnd),
            2 => Err(MZError::Buf),
            3 => Err(MZError::Data),
            4 => Err(MZError::Stream),
            _ => Err(MZError::Param),
        }
    }
    fn code_of(r: MZResult) -> i32 { match r { Ok(s) => s as i32, Err(e) => e as i32 } }

    fn model_io(input: &[u8], output: &mut [u8], flush: MZFlush) -> StreamResult {
        CALLS.fetch_add(1, Relaxed);
        IN_PTR.store(input.as_ptr() as usize, Relaxed);
        IN_LEN.store(input.len(), Relaxed);
        OUT_PTR.store(output.as_ptr() as usize, Relaxed);
        OUT_LEN.store(output.len(), Relaxed);
        FLUSH.store(flush as i32, Relaxed);
        let c: usize = kani::any();
        let w: usize = kani::any();
        kani::assume(c <= input.len() && w <= output.len());
        // touch the extreme bytes the contract allows the callee to touch: any slice wider than the caller's
        // buffers makes CBMC's pointer checks fire (the "guard page")
        if !input.is_empty() { let _ = input[input.len() - 1]; let _ = input[0]; }
        if !output.is_empty() { let n = output.len() - 1; output[n] = 0x5A; output[0] = 0x5A; }
        let status = any_result();
        CONSUMED.store(c, Relaxed);
        WRITTEN.store(w, Relaxed);
        STATUS.store(code_of(status), Relaxed);
        StreamResult { bytes_consumed: c, bytes_written: w, status }
    }
    fn model_inflate(state: &mut InflateState, input: &[u8], output: &mut [u8], flush: MZFlush) -> StreamResult { model_io(input, output, flush) }
    fn model_deflate(compressor: &mut CompressorOxide, input: &[u8], output: &mut [u8], flush: MZFlush) -> StreamResult { model_io(input, output, flush) }
    /// catch_unwind model (Kani 0.68 has an internal error on the intrinsic): exact under the crate's panic = "abort"
    /// profiles, where nothing is ever caught. Listed in the trusted base.
    fn model_catch_unwind<F: FnOnce() -> R + std::panic::UnwindSafe, R>(f: F) -> std::thread::Result<R> { Ok(f()) }

    const CAP: usize = 8;
    const MZ_OK: i32 = 0;
    const MZ_STREAM_ERROR: i32 = -2;
    const MZ_PARAM_ERROR: i32 = -10000;

    #[kani::proof]
    #[kani::unwind(10)]
    #[kani::stub(inflate, model_inflate)]
    #[kani::stub(crate::catch_unwind, model_catch_unwind)]
    fn k_capi_mz_inflate() {
        unsafe {
            // null stream
            assert!(crate::mz_inflate(core::ptr::null_mut(), 0) == MZ_STREAM_ERROR && crate::mz_inflateInit2(core::ptr::null_mut(), 15) == MZ_STREAM_ERROR
                && crate::mz_inflateEnd(core::ptr::null_mut()) == MZ_STREAM_ERROR, "OBL:capi.null_stream_is_stream_error [C17]");
            let mut stream = mz_stream::default();
            let wb: i32 = kani::any();
            let rc = crate::mz_inflateInit2(&mut stream, wb);
            if wb != 15 && wb != -15 {
                assert!(rc == MZ_PARAM_ERROR, "OBL:capi.inflate_init_rejects_window_bits_other_than_plus_minus_15 [C17 C11]");
                return;
            }
            assert!(rc == MZ_OK && stream.state.is_some() && stream.total_in == 0 && stream.total_out == 0, "OBL:capi.inflate_init_ok [C17]");
            let mut inb = [0u8; CAP];
            let mut outb = [0u8; CAP];
            let avail_in: u32 = kani::any();
            let avail_out: u32 = kani::any();
            kani::assume(avail_in as usize <= CAP && avail_out as usize <= CAP);
            let in_off: usize = kani::any();
            let out_off: usize = kani::any();
            kani::assume(in_off <= CAP && out_off <= CAP && in_off + avail_in as usize <= CAP && out_off + avail_out as usize <= CAP);
            let null_in: bool = kani::any();
            let null_out: bool = kani::any();
            stream.next_in = if null_in { core::ptr::null() } else { inb.as_ptr().add(in_off) };
            stream.avail_in = avail_in;
            stream.next_out = if null_out { core::ptr::null_mut() } else { outb.as_mut_ptr().add(out_off) };
            stream.avail_out = avail_out;
            stream.total_in = kani::any();
            stream.total_out = kani::any();
            stream.adler = 0xDEAD_BEEF; // whatever the caller left there: every completed call must overwrite it
            let (ti0, to0) = (stream.total_in, stream.total_out);
            let (ni0, no0) = (stream.next_in as usize, stream.next_out as usize);
            let custom_alloc: bool = kani::any();
            let flush: i32 = kani::any();
            let wrong_type: bool = kani::any();
            if wrong_type { stream.data_type = StateTypeEnum::DeflateType; }
            let rc = crate::mz_inflate(&mut stream, flush);
            let calls = CALLS.load(Relaxed);
            if wrong_type {
                assert!(rc == MZ_PARAM_ERROR && calls == 0, "OBL:capi.stream_of_the_other_kind_is_param_error [C17]");
                return;
            }
            if null_in || null_out {
                assert!(rc == MZ_STREAM_ERROR && calls == 0, "OBL:capi.null_buffers_are_stream_error [C17]");
                return;
            }
            if !(flush >= 0 && flush <= 4) {
                assert!(rc == MZ_PARAM_ERROR && calls == 0, "OBL:capi.out_of_range_flush_is_param_error [C17]");
                assert!(stream.next_in as usize == ni0 && stream.avail_in == avail_in && stream.total_in == ti0, "OBL:capi.rejected_call_leaves_accounting_untouched [C17]");
                return;
            }
            assert!(calls == 1, "OBL:capi.one_rust_call_per_c_call [C17]");
            // the slices handed to Rust are exactly the caller's declared ranges
            assert!(IN_PTR.load(Relaxed) == ni0 && IN_LEN.load(Relaxed) == avail_in as usize && OUT_PTR.load(Relaxed) == no0 && OUT_LEN.load(Relaxed) == avail_out as usize,
                "OBL:capi.rust_call_sees_exactly_the_declared_ranges [C17]");
            let (c, w) = (CONSUMED.load(Relaxed), WRITTEN.load(Relaxed));
            assert!(stream.next_in as usize == ni0 + c && stream.avail_in as usize == avail_in as usize - c && stream.total_in == ti0.wrapping_add(c as _),
                "OBL:capi.input_pointer_advances_by_drop_in_avail_and_rise_in_total [C17 C06]");
            assert!(stream.next_out as usize == no0 + w && stream.avail_out as usize == avail_out as usize - w && stream.total_out == to0.wrapping_add(w as _),
                "OBL:capi.output_pointer_advances_by_drop_in_avail_and_rise_in_total [C17]");
            assert!(rc == STATUS.load(Relaxed), "OBL:capi.return_code_is_the_rust_status [C17]");
            // the decoder behind the model is still at Start (no checksum yet): the field must read 0 -- on error returns too
            assert!(stream.adler == 0, "OBL:capi.adler_field_refreshed_from_the_decoder_on_every_return_also_errors [C16 C17]");
            let want_flush = match flush { 0 => 0, 1 | 2 => 2, 3 => 3, _ => 4 };
            assert!(FLUSH.load(Relaxed) == want_flush, "OBL:capi.flush_value_mapping [C17]");
            assert!(stream.state.is_some() && stream.data_type == StateTypeEnum::InflateType, "OBL:capi.state_handed_back_to_the_c_struct [C17]");
            assert!(crate::mz_inflateEnd(&mut stream) == MZ_OK && stream.state.is_none(), "OBL:capi.inflate_end_frees_state [C17]");
            kani::cover!(c > 0 && w > 0, "COV:capi.progress");
            kani::cover!(rc < 0 && c > 0, "COV:capi.error_with_progress");
        }
    }

    #[kani::proof]
    #[kani::unwind(10)]
    #[kani::stub(deflate, model_deflate)]
    #[kani::stub(crate::catch_unwind, model_catch_unwind)]
    fn k_capi_mz_deflate() {
        unsafe {
            assert!(crate::mz_deflate(core::ptr::null_mut(), 0) == MZ_STREAM_ERROR, "OBL:capi.null_stream_is_stream_error_deflate [C17]");
            let mut stream = mz_stream::default();
            let (level, method, wb, mem_level, strategy): (i32, i32, i32, i32, i32) = (kani::any(), kani::any(), kani::any(), kani::any(), kani::any());
            let rc = crate::mz_deflateInit2(&mut stream, level, method, wb, mem_level, strategy);
            let bad = method != 8 || mem_level < 1 || mem_level > 9 || (wb != 15 && wb != -15);
            if bad {
                assert!(rc == MZ_PARAM_ERROR && stream.state.is_none(), "OBL:capi.deflate_init_rejects_bad_method_mem_level_window_bits [C17]");
                return;
            }
            assert!(rc == MZ_OK && stream.state.is_some() && stream.total_in == 0 && stream.total_out == 0 && stream.adler == 1, "OBL:capi.deflate_init_ok [C17]");
            let mut inb = [0u8; CAP];
            let mut outb = [0u8; CAP];
            let avail_in: u32 = kani::any();
            let avail_out: u32 = kani::any();
            kani::assume(avail_in as usize <= CAP && avail_out as usize <= CAP);
            stream.next_in = inb.as_ptr();
            stream.avail_in = avail_in;
            stream.next_out = outb.as_mut_ptr();
            stream.avail_out = avail_out;
            let (ni0, no0) = (stream.next_in as usize, stream.next_out as usize);
            let flush: i32 = kani::any();
            let rc = crate::mz_deflate(&mut stream, flush);
            if !(flush >= 0 && flush <= 4) {
                assert!(rc == MZ_PARAM_ERROR && CALLS.load(Relaxed) == 0, "OBL:capi.deflate_out_of_range_flush_is_param_error [C17]");
                return;
            }
            assert!(IN_PTR.load(Relaxed) == ni0 && IN_LEN.load(Relaxed) == avail_in as usize && OUT_PTR.load(Relaxed) == no0 && OUT_LEN.load(Relaxed) == avail_out as usize,
                "OBL:capi.deflate_rust_call_sees_exactly_the_declared_ranges [C17]");
            let (c, w) = (CONSUMED.load(Relaxed), WRITTEN.load(Relaxed));
            assert!(stream.next_in as usize == ni0 + c && stream.avail_in as usize == avail_in as usize - c && stream.total_in == c as _
                && stream.next_out as usize == no0 + w && stream.avail_out as usize == avail_out as usize - w && stream.total_out == w as _,
                "OBL:capi.deflate_exact_accounting [C17]");
            assert!(rc == STATUS.load(Relaxed), "OBL:capi.deflate_return_code_is_the_rust_status [C17]");

        }
    }

    #[kani::proof]
    #[kani::unwind(10)]
    fn k_capi_custom_allocators_rejected() {
        unsafe extern "C" fn fake_alloc(_o: *mut libc::c_void, _a: libc::size_t, _b: libc::size_t) -> *mut libc::c_void { core::ptr::null_mut() }
        unsafe extern "C" fn fake_free(_o: *mut libc::c_void, _a: *mut libc::c_void) {}
        unsafe {
            let mut stream = mz_stream::default();
            let which: bool = kani::any();
            if which { stream.zalloc = Some(fake_alloc); } else { stream.zfree = Some(fake_free); }
            stream.data_type = StateTypeEnum::InflateType;
            let r: Result<StreamOxide<InflateState>, MZError> = StreamOxide::try_new(&mut stream);
            assert!(matches!(r, Err(MZError::Param)), "OBL:capi.custom_allocators_are_param_error [C17]");
        }
    }

    // ------------------------------------------------------------------
    // deflate side at the Rust layer of the shim (the extern "C" wrappers around it crash CBMC, status 139):
    // mz_deflate_init2_oxide parameter screening, mz_deflate_oxide exact accounting, mz_deflate_reset_oxide gives the
    // stream the field values a freshly initialised one has.
    // ------------------------------------------------------------------
    fn model_fill_capi<T: Clone>(s: &mut [T], v: T) { if !s.is_empty() { s[0] = v; } }
    #[kani::proof]
    #[kani::unwind(10)]
    #[kani::stub(deflate, model_deflate)]
    #[kani::stub(<[u16]>::fill, model_fill_capi)]
    fn k_capi_deflate_oxide_layer() {
        let inb = [0u8; CAP];
        let mut outb = [0u8; CAP];
        let avail_in: usize = kani::any();
        let avail_out: usize = kani::any();
        kani::assume(avail_in <= CAP && avail_out <= CAP);
        let mut so: StreamOxide<Compressor> = StreamOxide { next_in: None, total_in: kani::any(), next_out: None, total_out: kani::any(), state: None, adler: kani::any(), state_type: std::marker::PhantomData };
        let (level, method, wb, mem_level, strategy): (i32, i32, i32, i32, i32) = (kani::any(), kani::any(), kani::any(), kani::any(), kani::any());
        let rc = mz_deflate_init2_oxide(&mut so, level, method, wb, mem_level, strategy);
        let bad = method != 8 || mem_level < 1 || mem_level > 9 || (wb != 15 && wb != -15);
        if bad {
            assert!(matches!(rc, Err(MZError::Param)) && so.state.is_none(), "OBL:capi.deflate_init_rejects_bad_method_mem_level_window_bits [C17 C11]");
            return;
        }
        assert!(matches!(rc, Ok(MZStatus::Ok)) && so.state.is_some() && so.total_in == 0 && so.total_out == 0 && so.adler == 1, "OBL:capi.deflate_init_ok_fresh_counters_and_checksum [C17 C16]");
        let want_flags = deflate_flags::TDEFL_COMPUTE_ADLER32 | create_comp_flags_from_zip_params(level, wb, strategy);
        assert!(so.state().map(|c| c.flags()) == Some(want_flags as i32), "OBL:capi.deflate_init_flags_are_the_rust_flags_plus_running_adler [C17 C16]");
        // a call
        so.next_in = Some(&inb[..avail_in]);
        so.next_out = Some(&mut outb[..avail_out]);
        let (ti0, to0) = (so.total_in, so.total_out);
        let flush: i32 = kani::any();
        let rc = mz_deflate_oxide(&mut so, flush);
        if !(flush >= 0 && flush <= 4) {
            assert!(matches!(rc, Err(MZError::Param)) && CALLS.load(Relaxed) == 0 && so.total_in == ti0 && so.total_out == to0, "OBL:capi.deflate_out_of_range_flush_is_param_error_nothing_moves [C17]");
        } else {
            let (c, w) = (CONSUMED.load(Relaxed), WRITTEN.load(Relaxed));
            assert!(CALLS.load(Relaxed) == 1 && IN_LEN.load(Relaxed) == avail_in && OUT_LEN.load(Relaxed) == avail_out, "OBL:capi.deflate_rust_call_sees_exactly_the_declared_ranges [C17]");
            assert!(so.next_in.map(|s| s.len()) == Some(avail_in - c) && so.next_out.as_ref().map(|s| s.len()) == Some(avail_out - w) && so.total_in == ti0 + c as c_ulong && so.total_out == to0 + w as c_ulong,
                "OBL:capi.deflate_exact_accounting_also_on_error_returns [C17]");
            assert!(code_of(rc) == STATUS.load(Relaxed), "OBL:capi.deflate_return_code_is_the_rust_status [C17]");
            assert!(so.adler == 1, "OBL:capi.deflate_adler_field_is_the_compressors_running_checksum [C16 C17]");
        }
        // reset after any history: the stream looks like a freshly initialised one
        so.total_in = kani::any(); so.total_out = kani::any(); so.adler = kani::any();
        let rr = mz_deflate_reset_oxide(&mut so);
        assert!(matches!(rr, Ok(MZStatus::Ok)) && so.state.is_some(), "OBL:capi.deflate_reset_ok_keeps_the_compressor [C18 C17]");
        assert!(so.total_in == 0 && so.total_out == 0 && so.next_in.is_none() && so.next_out.is_none(), "OBL:capi.deflate_reset_clears_counters_and_buffers [C18 C17]");
        assert!(so.state().map(|c| c.flags()) == Some(want_flags as i32), "OBL:capi.deflate_reset_keeps_the_settings [C18 C11]");
        assert!(so.adler == 1, "OBL:capi.deflate_reset_checksum_field_as_after_init [C18 C16]");
        kani::cover!(flush == 4 && CONSUMED.load(Relaxed) > 0, "COV:capi.deflate_progress");
    }

    /// mz_deflate_reset_oxide: the C-visible fields afterwards are the ones mz_deflate_init2_oxide leaves (counters 0,
    /// buffers detached, checksum field = Adler-32 of nothing = 1); the compressor itself is reset through
    /// CompressorOxide::reset (own contract: K-reset), replaced here by a recording model
    static RESET_CALLS: AtomicUsize = AtomicUsize::new(0);
    fn model_compressor_reset(this: &mut CompressorOxide) { RESET_CALLS.fetch_add(1, Relaxed); }
    #[kani::proof]
    #[kani::unwind(10)]
    #[kani::stub(CompressorOxide::reset, model_compressor_reset)]
    fn k_capi_deflate_reset_fields() {
        let mut so: StreamOxide<Compressor> = StreamOxide { next_in: None, total_in: kani::any(), next_out: None, total_out: kani::any(),
            state: Some(Box::new(InternalState::Deflate(Box::default()))), adler: kani::any(), state_type: std::marker::PhantomData };
        let rr = mz_deflate_reset_oxide(&mut so);
        assert!(matches!(rr, Ok(MZStatus::Ok)) && so.state.is_some(), "OBL:capi.deflate_reset_ok_keeps_the_compressor [C18 C17]");
        assert!(so.total_in == 0 && so.total_out == 0 && so.next_in.is_none() && so.next_out.is_none(), "OBL:capi.deflate_reset_clears_counters_and_buffers [C18 C17]");
        assert!(so.adler == MZ_ADLER32_INIT, "OBL:capi.deflate_reset_checksum_field_as_after_init [C18 C16]");
        let mut none: StreamOxide<Compressor> = StreamOxide { next_in: None, total_in: 0, next_out: None, total_out: 0, state: None, adler: 0, state_type: std::marker::PhantomData };
        assert!(matches!(mz_deflate_reset_oxide(&mut none), Err(MZError::Stream)), "OBL:capi.deflate_reset_without_state_is_stream_error [C17]");
    }

    //@PLAYBACK@
}
