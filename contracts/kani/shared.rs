#[cfg(kani)]
#[allow(unused_imports, dead_code, unused_variables, unused_mut, clippy::all)]
mod verif_shared {
    use super::*;

    /// RFC 1950 §8.2 / §9 reference: a = 1 + sum of bytes, b = sum of the running a values, both mod 65521
    fn adler_ref(start: u32, data: &[u8], n: usize) -> u32 {
        let mut a = start & 0xFFFF;
        let mut b = start >> 16;
        let mut i = 0;
        while i < 4 { if i < n { a = (a + data[i] as u32) % 65521; b = (b + a) % 65521; } i += 1; }
        (b << 16) | a
    }

    /// update_adler32 (adler2, scalar build) against the definition, for every start value that is itself a checksum
    /// and every buffer of up to 4 bytes; plus the incremental-composition law at a symbolic split point.
    #[kani::proof]
    #[kani::unwind(12)]
    fn k_adler32_matches_definition_and_composes() {
        let start: u32 = kani::any();
        kani::assume((start & 0xFFFF) < 65521 && (start >> 16) < 65521);
        let data: [u8; 4] = kani::any();
        let n: usize = kani::any();
        kani::assume(n <= 4);
        let whole = update_adler32(start, &data[..n]);
        assert!(whole == adler_ref(start, &data, n), "OBL:adler.equals_rfc1950_definition [C16 C09]");
        let k: usize = kani::any();
        kani::assume(k <= n);
        let part = update_adler32(update_adler32(start, &data[..k]), &data[k..n]);
        assert!(part == whole, "OBL:adler.any_split_gives_the_same_result [C16]");
        assert!(update_adler32(start, &data[..0]) == start, "OBL:adler.empty_update_is_identity [C16 C09]");
    }

    //@PLAYBACK@
}
