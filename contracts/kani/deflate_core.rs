#[cfg(kani)]
#[allow(unused_imports, dead_code, unused_variables, unused_mut, clippy::all)]
mod verif_deflate_core {
    use super::*;
    use crate::deflate::zlib::header_from_flags;

//@SPEC@

    // ------------------------------------------------------------------
    // helpers
    // ------------------------------------------------------------------
    fn any_strategy() -> CompressionStrategy {
        let s: u8 = kani::any();
        kani::assume(s < 5);
        match s {
            0 => CompressionStrategy::Default,
            1 => CompressionStrategy::Filtered,
            2 => CompressionStrategy::HuffmanOnly,
            3 => CompressionStrategy::RLE,
            _ => CompressionStrategy::Fixed,
        }
    }
    fn any_format() -> DataFormat {
        let s: u8 = kani::any();
        kani::assume(s < 3);
        match s {
            0 => DataFormat::Zlib,
            1 => DataFormat::ZLibIgnoreChecksum,
            _ => DataFormat::Raw,
        }
    }
    fn any_flush() -> TDEFLFlush {
        let s: u8 = kani::any();
        kani::assume(s < 8);
        match s {
            0 => TDEFLFlush::None,
            1 => TDEFLFlush::Partial,
            2 => TDEFLFlush::Sync,
            3 => TDEFLFlush::Full,
            4 => TDEFLFlush::Finish,
            5 => TDEFLFlush::PartialOpt,
            6 => TDEFLFlush::SyncOpt,
            _ => TDEFLFlush::NoSync,
        }
    }
    fn any_status() -> TDEFLStatus {
        let s: u8 = kani::any();
        kani::assume(s < 4);
        match s {
            0 => TDEFLStatus::BadParam,
            1 => TDEFLStatus::PutBufFailed,
            2 => TDEFLStatus::Okay,
            _ => TDEFLStatus::Done,
        }
    }

    // ------------------------------------------------------------------
    // K-def-flags : create_comp_flags_from_zip_params, limit_level_by_window_bits,
    //               window_bits_from_flags, probes_from_flags, with_params (flag part)
    // Oracle: the statement of C10/C01 (strategy -> token restrictions, level clamp).
    // ------------------------------------------------------------------
    const RFC_NUM_PROBES: [u32; 11] = [0, 1, 6, 32, 16, 32, 128, 256, 512, 768, 1500];

    #[kani::proof]
    fn k_flags_from_zip_params() {
        let level: i32 = kani::any();
        let wb: i32 = kani::any();
        let strategy: i32 = kani::any();
        let f = create_comp_flags_from_zip_params(level, wb, strategy);
        let eff = if level < 0 { 6 } else if level > 10 { 10 } else { level };
        // level clamp: values above 10 behave as 10, negative as default (6)
        assert!(f == create_comp_flags_from_zip_params(eff, wb, strategy) || level < 0, "OBL:flags.level_clamp [C01 C10]");
        if level > 10 {
            assert!(f == create_comp_flags_from_zip_params(10, wb, strategy), "OBL:flags.level_above_10_is_10 [C01 C10]");
        }
        // level 0 <=> stored-only flag
        assert!((f & TDEFL_FORCE_ALL_RAW_BLOCKS != 0) == (level == 0), "OBL:flags.level0_iff_raw [C01 C10]");
        // zlib flag <=> window_bits > 0
        assert!((f & TDEFL_WRITE_ZLIB_HEADER != 0) == (wb > 0), "OBL:flags.zlib_iff_wb_positive [C09 C10]");
        if level != 0 {
            // strategy table of C10
            assert!((f & TDEFL_FILTER_MATCHES != 0) == (strategy == 1), "OBL:flags.filtered [C10]");
            assert!((f & TDEFL_RLE_MATCHES != 0) == (strategy == 3), "OBL:flags.rle [C10 C11]");
            assert!((f & TDEFL_FORCE_ALL_STATIC_BLOCKS != 0) == (strategy == 4), "OBL:flags.fixed [C10]");
            if strategy == 2 {
                assert!(f & MAX_PROBES_MASK == 0, "OBL:flags.huffman_only_zero_probes [C10]");
            } else {
                assert!(f & MAX_PROBES_MASK == RFC_NUM_PROBES[eff as usize], "OBL:flags.probes_table [C10]");
                assert!(f & MAX_PROBES_MASK != 0, "OBL:flags.matching_enabled_at_level_ge_1 [C10]");
            }
        }
        assert!((f & TDEFL_GREEDY_PARSING_FLAG != 0) == (level <= 3), "OBL:flags.greedy [C10]");
        // no stray bits
        assert!(f & !(MAX_PROBES_MASK | TDEFL_WRITE_ZLIB_HEADER | TDEFL_GREEDY_PARSING_FLAG | TDEFL_RLE_MATCHES
            | TDEFL_FILTER_MATCHES | TDEFL_FORCE_ALL_STATIC_BLOCKS | TDEFL_FORCE_ALL_RAW_BLOCKS) == 0, "OBL:flags.no_stray_bits [C10]");
        kani::cover!(level == 0, "COV:flags.level0");
        kani::cover!(level > 10, "COV:flags.gt10");
        kani::cover!(level != 0 && strategy == 3, "COV:flags.rle");
    }

    #[kani::proof]
    fn k_limit_level_by_window_bits() {
        let wb: u8 = kani::any();
        let level: i32 = kani::any();
        let strat = any_strategy();
        let (l2, s2) = limit_level_by_window_bits(wb, level, strat);
        if wb >= 15 {
            assert!(l2 == level && s2 == strat, "OBL:limit.identity_at_15 [C11 C10]");
        } else if wb >= 12 {
            assert!(l2 == core::cmp::min(level, 1) && s2 == strat, "OBL:limit.level_le_1_for_12_14 [C11]");
        } else if level != 0 && strat != CompressionStrategy::HuffmanOnly {
            assert!(l2 == 1 && s2 == CompressionStrategy::RLE, "OBL:limit.rle_below_12 [C11]");
        } else {
            assert!(l2 == level && s2 == strat, "OBL:limit.noop_for_stored_or_huffonly [C11]");
        }
        kani::cover!(wb < 12 && level != 0, "COV:limit.small");
        kani::cover!(wb >= 12 && wb < 15, "COV:limit.mid");
    }

    #[kani::proof]
    fn k_probes_from_flags() {
        let flags: u32 = kani::any();
        let p = probes_from_flags(flags);
        let n = flags & 0xFFF;
        assert!(p[0] == 1 + (n + 2) / 3 && p[1] == 1 + ((n >> 2) + 2) / 3, "OBL:probes.formula [C10]");
        // probes == 0 (HuffmanOnly) => first find_match iteration returns without searching
        if n == 0 { assert!(p[0] == 1 && p[1] == 1, "OBL:probes.zero_means_no_search [C10]"); }
        kani::cover!(n == 0, "COV:probes.zero");
    }

    /// with_params: flag computation and stored window bits; every constructor establishes window_bits_max <= 15.
    #[kani::proof]
    fn k_with_params_flags() {
        let fmt = any_format();
        let level: u8 = kani::any();
        let strat = any_strategy();
        let wb: u8 = kani::any();
        let d = CompressorOxide::with_params(fmt, level, strat, wb);
        let wbc = core::cmp::min(wb, 15);
        let lv = core::cmp::min(level, 10) as i32;
        assert!(d.params.window_bits_max == wbc, "OBL:with_params.window_bits_clamped [C11 C09]");
        assert!(d.params.window_bits_max <= 15, "OBL:with_params.window_bits_le_15 [C09 C11]");
        let (l2, s2) = limit_level_by_window_bits(wbc, lv, strat);
        let base = create_comp_flags_from_zip_params(l2, if fmt == DataFormat::Raw { -(wbc as i32) } else { wbc as i32 }, s2 as i32);
        let f = d.params.flags;
        // clauses taken from the property text (C10): the requested strategy is honoured in every configuration,
        // also when a small window forces run-length matching on top of it
        let stored = f & TDEFL_FORCE_ALL_RAW_BLOCKS != 0;
        assert!(stored == (lv == 0), "OBL:with_params.level0_iff_stored_only [C01 C10]");
        if !stored {
            if strat == CompressionStrategy::Fixed { assert!(f & TDEFL_FORCE_ALL_STATIC_BLOCKS != 0, "OBL:with_params.fixed_strategy_never_dynamic_blocks_any_window [C10]"); }
            if strat == CompressionStrategy::Filtered { assert!(f & TDEFL_FILTER_MATCHES != 0, "OBL:with_params.filtered_strategy_kept_any_window [C10]"); }
            if strat == CompressionStrategy::HuffmanOnly { assert!(f & MAX_PROBES_MASK == 0 && f & TDEFL_RLE_MATCHES == 0, "OBL:with_params.huffman_only_no_matching_any_window [C10]"); }
            if strat == CompressionStrategy::RLE { assert!(f & TDEFL_RLE_MATCHES != 0, "OBL:with_params.rle_strategy_kept [C10]"); }
            // a window below 4 KiB can only be honoured by distance-1 matching or no matching at all (C11)
            if wbc < 12 { assert!(f & TDEFL_RLE_MATCHES != 0 || f & MAX_PROBES_MASK == 0, "OBL:with_params.small_window_means_rle_or_no_matching [C11]"); }
            if wbc < 15 && f & TDEFL_RLE_MATCHES == 0 && f & MAX_PROBES_MASK != 0 { assert!(f & MAX_PROBES_MASK == 1, "OBL:with_params.window_12_to_14_means_one_probe [C11]"); }
        }
        // everything else is the flag word of the (possibly limited) level/strategy
        let extra = TDEFL_FORCE_ALL_STATIC_BLOCKS | TDEFL_FILTER_MATCHES;
        assert!(f & !extra == base & !extra && f & base == base, "OBL:with_params.flags [C10 C11]");
        let want = f;
        assert!(d.params.greedy_parsing == (want & TDEFL_GREEDY_PARSING_FLAG != 0), "OBL:with_params.greedy [C10]");
        assert!(d.dict.max_probes[0] == probes_from_flags(want)[0] && d.dict.max_probes[1] == probes_from_flags(want)[1], "OBL:with_params.probes [C10]");
        // level byte: everything above 10 behaves as 10
        if level > 10 {
            let d10 = CompressorOxide::with_params(fmt, 10, strat, wb);
            assert!(d10.params.flags == d.params.flags, "OBL:with_params.level_gt_10_is_10 [C01]");
        }
        // zlib framing iff a zlib format was asked and wb > 0
        assert!((d.params.flags & TDEFL_WRITE_ZLIB_HEADER != 0) == (fmt != DataFormat::Raw && wbc > 0), "OBL:with_params.zlib_flag [C09]");
        kani::cover!(level > 10, "COV:with_params.gt10");
        kani::cover!(wb > 15, "COV:with_params.wb_gt15");
    }

    // ------------------------------------------------------------------
    // K-dispatch : the real compress() / compress_inner with the three engines,
    // flush_block and update_adler32 replaced by recording contract models.
    // ------------------------------------------------------------------
    const ROUTE_NONE: u8 = 0;
    const ROUTE_STORED: u8 = 1;
    const ROUTE_FAST: u8 = 2;
    const ROUTE_NORMAL: u8 = 3;

    /// Engine contract model (M-engine): consumes some prefix of the input, may leave pending output,
    /// may fail. Records the route in `saved_lit` and the flush_block-call marker bit untouched.
    fn engine_model(d: &mut CompressorOxide, callback: &mut CallbackOxide, route: u8) -> bool {
        // each engine is entered at most once per compress() call
        assert!(d.params.saved_lit == ROUTE_NONE, "OBL:dispatch.single_engine_call [C02]");
        d.params.saved_lit = route;
        let len = callback.in_buf.map_or(0, |b| b.len());
        let sp: usize = kani::any();
        kani::assume(sp <= len);
        d.params.src_pos = sp;
        let la: usize = kani::any();
        kani::assume(la <= 4096);
        d.dict.lookahead_size = la;
        let ok: bool = kani::any();
        if !ok {
            // failure: engines set prev_return_status themselves or flush_block's callback did
            d.params.prev_return_status = TDEFLStatus::PutBufFailed;
            return false;
        }
        // an engine may return early with pending output (flush_block could not drain)
        model_pending(d, callback);
        true
    }
    fn model_pending(d: &mut CompressorOxide, callback: &mut CallbackOxide) {
        let fr: u32 = kani::any();
        let fo: u32 = kani::any();
        kani::assume(fr as usize <= OUT_BUF_SIZE && fo as usize <= OUT_BUF_SIZE && (fo + fr) as usize <= OUT_BUF_SIZE);
        d.params.flush_remaining = fr;
        d.params.flush_ofs = fo;
        if let CallbackOut::Buf(ref cb) = callback.out {
            let o: usize = kani::any();
            kani::assume(o <= cb.out_buf.len());
            // pending bytes only if the caller's buffer is full
            kani::assume(fr == 0 || o == cb.out_buf.len());
            d.params.out_buf_ofs = o;
        }
    }
    fn model_stored(d: &mut CompressorOxide, c: &mut CallbackOxide) -> bool { engine_model(d, c, ROUTE_STORED) }
    fn model_fast(d: &mut CompressorOxide, c: &mut CallbackOxide) -> bool { engine_model(d, c, ROUTE_FAST) }
    fn model_normal(d: &mut CompressorOxide, c: &mut CallbackOxide) -> bool { engine_model(d, c, ROUTE_NORMAL) }

    /// flush_block contract model: records the flush mode it was called with in saved_match_len (1 + mode),
    /// leaves nondeterministic pending output.
    fn model_flush_block(d: &mut CompressorOxide, callback: &mut CallbackOxide, flush: TDEFLFlush) -> Result<i32> {
        assert!(d.params.saved_match_len == 0, "OBL:dispatch.final_flush_block_once [C12 C02]");
        // flush_block's precondition at this call site (the real one debug_asserts it): nothing still waiting in the
        // local buffer (it would be overwritten) and no unprocessed lookahead
        assert!(d.params.flush_remaining == 0, "OBL:dispatch.no_final_flush_block_while_output_is_pending [C02 C01]");
        assert!(d.dict.lookahead_size == 0, "OBL:dispatch.no_final_flush_block_with_unprocessed_lookahead [C02 C12]");
        d.params.saved_match_len = 1 + flush as u32;
        d.params.block_index = d.params.block_index.wrapping_add(1);
        let r: u8 = kani::any();
        if r == 0 { return Err(Error {}); }
        if r == 1 { d.params.prev_return_status = TDEFLStatus::PutBufFailed; return Ok(-1); }
        model_pending(d, callback);
        Ok(d.params.flush_remaining as i32)
    }
    /// update_adler32 model: records the number of bytes it was given in saved_match_dist (+1).
    fn model_adler(adler: u32, data: &[u8]) -> u32 {
        adler.wrapping_add(0x9E37_79B1).wrapping_add(data.len() as u32)
    }

    /// flush_output_buffer contract model (the real function is proved against this contract in K-flushout):
    /// moves n = min(space, flush_remaining) bytes; counters move by n; Done iff finished and drained.
    fn model_flush_output(c: &mut CallbackOxide, p: &mut ParamsOxide) -> (TDEFLStatus, usize, usize) {
        let mut res = (TDEFLStatus::Okay, p.src_pos, 0);
        if let CallbackOut::Buf(ref mut cb) = c.out {
            assert!(p.out_buf_ofs <= cb.out_buf.len(), "OBL:dispatch.flushout_pre_ofs_in_range [C02 C14]");
            assert!(p.flush_ofs as usize + p.flush_remaining as usize <= OUT_BUF_SIZE, "OBL:dispatch.flushout_pre_pending_in_local_buf [C02]");
            let n = core::cmp::min(cb.out_buf.len() - p.out_buf_ofs, p.flush_remaining as usize);
            p.flush_ofs += n as u32;
            p.flush_remaining -= n as u32;
            p.out_buf_ofs += n;
            res.2 = p.out_buf_ofs;
        }
        if p.finished && p.flush_remaining == 0 {
            res.0 = TDEFLStatus::Done
        }
        res
    }

    /// Model of `<[T]>::fill` (trusted std contract: every element == v afterwards). Sound weakening used here:
    /// it writes v at index 0 only, counts the calls and records the slice lengths; the harness observes
    /// index 0 and the (count, length) record, and the std contract extends the value to the whole slice.
    static FILL_CALLS: core::sync::atomic::AtomicUsize = core::sync::atomic::AtomicUsize::new(0);
    static FILL_LEN_SUM: core::sync::atomic::AtomicUsize = core::sync::atomic::AtomicUsize::new(0);
    fn model_fill<T: Clone>(s: &mut [T], v: T) {
        FILL_LEN_SUM.fetch_add(s.len(), core::sync::atomic::Ordering::Relaxed);
        if !s.is_empty() { s[0] = v; }
        FILL_CALLS.fetch_add(1, core::sync::atomic::Ordering::Relaxed);
    }

    /// No Box / no by-value return of the compressor: moving the 64 KiB inline LZ buffer costs CBMC minutes.
    /// Same all-zero initial window / hash tables as HashBuffers::default(), but allocated as Box::new([0; N]):
    /// CBMC constant-folds reads at concrete positions from such an object, and does NOT from the
    /// vec![0; N].into_boxed_slice().try_into() objects of the real constructor (measured: a loop bounded by such a
    /// byte unwinds to the bound). The state is identical; only the allocation route differs.
    macro_rules! concrete_window {
        ($dict:expr) => {{
            $dict.b.dict = Box::new([0u8; LZ_DICT_FULL_SIZE]);
            $dict.b.next = Box::new([0u16; LZ_DICT_SIZE]);
            $dict.b.hash = Box::new([0u16; LZ_DICT_SIZE]);
        }};
    }
    macro_rules! any_compressor {
        () => {{
            let fmt = any_format();
            let level: u8 = kani::any();
            let strat = any_strategy();
            let wb: u8 = kani::any();
            kani::assume(level <= 10 && wb >= 8 && wb <= 15);
            CompressorOxide::with_params(fmt, level, strat, wb)
        }};
    }
    fn dispatch_havoc(d: &mut CompressorOxide) -> TDEFLFlush {
        // arbitrary history: any status, any previous flush, pending output, finished flag
        d.params.prev_return_status = any_status();
        d.params.flush = any_flush();
        d.params.finished = kani::any();
        let fr: u32 = kani::any();
        let fo: u32 = kani::any();
        kani::assume((fr as usize) <= OUT_BUF_SIZE && (fo as usize) <= OUT_BUF_SIZE && (fo as usize + fr as usize) <= OUT_BUF_SIZE);
        d.params.flush_remaining = fr;
        d.params.flush_ofs = fo;
        d.params.adler32 = kani::any();
        d.params.out_buf_ofs = kani::any();
        d.params.src_pos = kani::any();
        d.params.block_index = kani::any();
        d.dict.size = kani::any();
        kani::assume(d.dict.size <= LZ_DICT_SIZE);
        d.dict.lookahead_size = kani::any();
        kani::assume(d.dict.lookahead_size <= 4096);
        d.params.saved_lit = ROUTE_NONE;
        d.params.saved_match_len = 0;
        d.params.saved_match_dist = 0;
        // the C API asks for a running Adler-32 on raw streams too (mz_deflateInit2 ORs this flag in)
        if kani::any() { d.params.flags |= TDEFL_COMPUTE_ADLER32; }
        any_flush()
    }

    #[kani::proof]
    #[kani::stub(compress_stored, model_stored)]
    #[kani::stub(compress_fast, model_fast)]
    #[kani::stub(compress_normal, model_normal)]
    #[kani::stub(flush_block, model_flush_block)]
    #[kani::stub(update_adler32, model_adler)]
    #[kani::stub(flush_output_buffer, model_flush_output)]
    #[kani::stub(<[u16]>::fill, model_fill)]
    fn k_dispatch() {
        let mut d = any_compressor!();
        let flush = dispatch_havoc(&mut d);
        d.dict.b.hash[0] = kani::any();
        d.dict.b.next[0] = kani::any();
        let (hash0, next0, size0) = (d.dict.b.hash[0], d.dict.b.next[0], d.dict.size);
        let inb: [u8; 4] = kani::any();
        let inl: usize = kani::any();
        kani::assume(inl <= 4);
        let mut outb: [u8; 8] = kani::any();
        let outl: usize = kani::any();
        kani::assume(outl <= 8);
        let out0 = outb;

        let flags = d.params.flags;
        let prev_status = d.params.prev_return_status;
        let prev_flush = d.params.flush;
        let pending = d.params.flush_remaining;
        let pend_ofs = d.params.flush_ofs;
        let finished0 = d.params.finished;
        let adler0 = d.params.adler32;
        let la0 = d.dict.lookahead_size;

        let (st, ipos, opos) = compress(&mut d, &inb[..inl], &mut outb[..outl], flush);
        let route = d.params.saved_lit;
        let fb = d.params.saved_match_len; // 0 = flush_block not called by compress_inner, else 1+mode

        // ---- counts never exceed what was offered (C02, C14) ----
        assert!(ipos <= inl, "OBL:dispatch.consumed_le_offered [C02 C14]");
        assert!(opos <= outl, "OBL:dispatch.written_le_offered [C02 C14]");

        // ---- prologue: latched error / Finish sticky (C02 C14) ----
        let bad = prev_status != TDEFLStatus::Okay || (prev_flush == TDEFLFlush::Finish && flush != TDEFLFlush::Finish);
        if bad {
            assert!(st == TDEFLStatus::BadParam && ipos == 0 && opos == 0, "OBL:dispatch.badparam_on_latched_or_nonfinish_after_finish [C02 C14]");
            assert!(d.params.prev_return_status == TDEFLStatus::BadParam, "OBL:dispatch.badparam_latched [C14]");
            assert!(route == ROUTE_NONE && fb == 0, "OBL:dispatch.badparam_no_engine [C02 C14]");
            assert!(outb == out0, "OBL:dispatch.badparam_writes_nothing [C14]");
            return;
        }
        assert!(d.params.prev_return_status == st, "OBL:dispatch.status_latched [C14]");

        // ---- pending output or finished: only drain (C02 C14) ----
        if pending != 0 || finished0 {
            assert!(route == ROUTE_NONE && fb == 0, "OBL:dispatch.pending_short_circuits_engines [C02 C14]");
            assert!(ipos == 0, "OBL:dispatch.pending_consumes_nothing [C02]");
            let n = core::cmp::min(outl, pending as usize);
            assert!(opos == n, "OBL:dispatch.pending_drain_count [C02 C14]");
            assert!(d.params.flush_remaining == pending - n as u32 && d.params.flush_ofs == pend_ofs + n as u32, "OBL:dispatch.pending_bookkeeping [C02]");
            assert!((st == TDEFLStatus::Done) == (finished0 && pending as usize <= outl), "OBL:dispatch.done_iff_finished_and_drained [C14]");
            assert!(d.params.adler32 == adler0, "OBL:dispatch.pending_adler_untouched [C16]");
            return;
        }

        // ---- routing (C01 C10 C11) : clause taken from the property text, not from the code ----
        let raw = flags & TDEFL_FORCE_ALL_RAW_BLOCKS != 0;
        let rle = flags & TDEFL_RLE_MATCHES != 0;
        let filt = flags & TDEFL_FILTER_MATCHES != 0;
        assert!(route != ROUTE_NONE, "OBL:dispatch.engine_called [C02]");
        assert!(raw == (route == ROUTE_STORED), "OBL:dispatch.level0_iff_stored_route [C01 C10]");
        if rle { assert!(route != ROUTE_FAST, "OBL:dispatch.rle_never_fast_route [C10 C11]"); }
        if filt { assert!(route != ROUTE_FAST, "OBL:dispatch.filter_never_fast_route [C10]"); }
        if route == ROUTE_FAST {
            assert!(flags & MAX_PROBES_MASK == 1 && flags & TDEFL_GREEDY_PARSING_FLAG != 0, "OBL:dispatch.fast_only_one_probe_greedy [C10]");
        }
        if flags & MAX_PROBES_MASK == 0 { assert!(route != ROUTE_FAST, "OBL:dispatch.huffman_only_never_fast [C10]"); }

        if st == TDEFLStatus::PutBufFailed {
            return;
        }
        assert!(ipos == d.params.src_pos, "OBL:dispatch.in_pos_is_src_pos [C02]");

        // ---- running Adler-32 over exactly the consumed input (C09 C16) ----
        let want_adler = flags & (TDEFL_WRITE_ZLIB_HEADER | TDEFL_COMPUTE_ADLER32) != 0;
        if want_adler {
            assert!(d.params.adler32 == model_adler(adler0, &inb[..ipos]), "OBL:dispatch.adler_over_consumed_prefix [C09 C16]");
        } else {
            assert!(d.params.adler32 == adler0, "OBL:dispatch.adler_off_when_not_requested [C16]");
        }

        // ---- final flush_block gating (C02 C12) ----
        if fb != 0 {
            assert!(fb == 1 + flush as u32, "OBL:dispatch.flush_block_gets_requested_mode [C12]");
            assert!(flush != TDEFLFlush::None, "OBL:dispatch.no_flush_block_on_none [C12]");
            assert!(ipos == inl, "OBL:dispatch.flush_only_when_all_input_consumed [C12 C02]");
        }
        // ---- Full flush cuts history: hash chains cleared and dictionary size zero (C12) ----
        let fills = FILL_CALLS.load(core::sync::atomic::Ordering::Relaxed);
        let fill_len = FILL_LEN_SUM.load(core::sync::atomic::Ordering::Relaxed);
        if fb != 0 && flush == TDEFLFlush::Full && st != TDEFLStatus::PutBufFailed {
            assert!(d.dict.size == 0, "OBL:dispatch.full_flush_dict_size_zero [C12]");
            assert!(fills == 2 && fill_len == 2 * LZ_DICT_SIZE && d.dict.b.hash[0] == 0 && d.dict.b.next[0] == 0,
                "OBL:dispatch.full_flush_clears_hash_chains [C12]");
        } else {
            assert!(d.dict.size == size0 && fills == 0 && d.dict.b.hash[0] == hash0 && d.dict.b.next[0] == next0,
                "OBL:dispatch.no_history_cut_without_full_flush [C12]");
        }
        if d.params.finished {
            assert!(flush == TDEFLFlush::Finish && fb != 0, "OBL:dispatch.finished_only_after_finish_flush_block [C10 C14]");
        }
        if st == TDEFLStatus::Done {
            assert!(flush == TDEFLFlush::Finish && d.params.finished && d.params.flush_remaining == 0, "OBL:dispatch.done_only_after_finish_and_drained [C14 C02]");
        }
        kani::cover!(route == ROUTE_STORED, "COV:dispatch.stored");
        kani::cover!(route == ROUTE_FAST, "COV:dispatch.fast");
        kani::cover!(route == ROUTE_NORMAL, "COV:dispatch.normal");
        kani::cover!(route == ROUTE_NORMAL && rle, "COV:dispatch.normal_rle");
        kani::cover!(fb != 0, "COV:dispatch.flush_block");
        kani::cover!(fb != 0 && flush == TDEFLFlush::Full, "COV:dispatch.full_flush");
        kani::cover!(st == TDEFLStatus::Done, "COV:dispatch.done");
    }

    // ------------------------------------------------------------------
    // K-lenDist : the real record_match / record_literal / LZOxide token buffer and the real compress_lz_codes,
    // on ONE symbolic token, with an identity "Huffman" table (code = symbol, fixed widths) so that the emitted
    // bit string can be parsed back with the RFC tables. Covers LEN_SYM/LEN_EXTRA/SMALL_DIST_*/LARGE_DIST_*/BITMASKS,
    // BitBuffer::{put_fast,flush}, OutputBufferOxide::put_bits, LZOxide::{write_code,init_flag,get_flag,consume_flag}.
    // Complete over all 256 lengths x 32768 distances x 8 bit alignments.
    // ------------------------------------------------------------------
    const ID_LIT_BITS: u32 = 9;
    const ID_DIST_BITS: u32 = 5;
    const ID_CODES: [u16; MAX_HUFF_SYMBOLS] = { let mut a = [0u16; MAX_HUFF_SYMBOLS]; let mut i = 0; while i < MAX_HUFF_SYMBOLS { a[i] = i as u16; i += 1; } a };
    fn identity_huff(h: &mut HuffmanOxide) {
        h.codes[0] = ID_CODES;
        h.codes[1] = ID_CODES;
        h.code_sizes[0] = [ID_LIT_BITS as u8; MAX_HUFF_SYMBOLS];
        h.code_sizes[1] = [ID_DIST_BITS as u8; MAX_HUFF_SYMBOLS];
    }
    /// all bits written so far: bytes[..inner_pos] followed by the low bits_in bits of bit_buffer, as one integer
    fn emitted_bits(buf: &[u8; 32], inner_pos: usize, bit_buffer: u32, bits_in: u32) -> (u128, u32) {
        let b = |k: usize| -> u128 { if k < inner_pos { (buf[k] as u128) << (8 * k) } else { 0 } };
        let mut v: u128 = b(0) | b(1) | b(2) | b(3) | b(4) | b(5) | b(6) | b(7) | b(8);
        v |= ((bit_buffer as u128) & ((1u128 << bits_in) - 1)) << (8 * inner_pos as u32);
        (v, 8 * inner_pos as u32 + bits_in)
    }
    fn take(v: &mut u128, n: &mut u32, k: u32) -> u32 { let r = (*v & ((1u128 << k) - 1)) as u32; *v >>= k; *n -= k; r }

    #[kani::proof]
    #[kani::unwind(4)]
    fn k_lz_one_match_roundtrip() {
        let len: u32 = kani::any();
        let dist: u32 = kani::any();
        kani::assume(len >= 3 && len <= 258 && dist >= 1 && dist <= 32768);
        let mut lz = LZOxide::new();
        let mut h = HuffmanOxide::default();
        record_match(&mut h, &mut lz, len, dist);
        // token buffer contract (V-def-lz mirrors this in Verus)
        assert!(lz.total_bytes == len, "OBL:lz.record_match_total_bytes [C01 C02 C10]");
        assert!(lz.code_position == 4 && lz.flag_position == 0 && lz.num_flags_left == 7, "OBL:lz.record_match_positions [C02]");
        assert!(lz.codes[1] as u32 == len - 3 && (lz.codes[2] as u32 | (lz.codes[3] as u32) << 8) == dist - 1, "OBL:lz.record_match_stores_len_minus3_dist_minus1 [C01 C10]");
        // histogram slots == the RFC symbols of (len, dist); every other slot untouched (observed at symbolic indices)
        let want_ls: usize = kani::any();
        let want_ds: usize = kani::any();
        kani::assume(want_ls < 29 && RFC_LEN_BASE[want_ls] as u32 <= len && (want_ls == 28 || len < RFC_LEN_BASE[want_ls + 1] as u32));
        kani::assume(want_ds < 30 && RFC_DIST_BASE[want_ds] as u32 <= dist && (want_ds == 29 || dist < RFC_DIST_BASE[want_ds + 1] as u32));
        let k0: usize = kani::any();
        let k1: usize = kani::any();
        kani::assume(k0 < 288 && k1 < 288);
        assert!(h.count[0][k0] == (k0 == 257 + want_ls) as u16, "OBL:lz.record_match_litlen_histogram_is_rfc_symbol_only [C01 C10]");
        assert!(h.count[1][k1] == (k1 == want_ds) as u16, "OBL:lz.record_match_dist_histogram_is_rfc_symbol_only [C01 C10]");

        // emission through the real compress_lz_codes
        identity_huff(&mut h);
        lz.init_flag();
        let mut buf = [0u8; 32];
        let bits_in0: u32 = kani::any();
        let bb0: u32 = kani::any();
        kani::assume(bits_in0 < 8 && bb0 < (1 << bits_in0));
        let mut out = OutputBufferOxide { inner: &mut buf, inner_pos: 0, local: true, bit_buffer: bb0, bits_in: bits_in0 };
        let r = compress_lz_codes(&h, &mut out, &lz.codes, lz.code_position);
        assert!(r.is_ok(), "OBL:lzcodes.ok_with_room [C10]");
        let (ip, bbuf, bin) = (out.inner_pos, out.bit_buffer, out.bits_in);
        assert!(bin < 8 && ip <= 8, "OBL:lzcodes.leaves_less_than_a_byte_pending [C02 C10]");
        let (mut v, mut n) = emitted_bits(&buf, ip, bbuf, bin);
        assert!(take(&mut v, &mut n, bits_in0) == bb0, "OBL:lzcodes.preserves_pending_bits [C02]");
        let ls = take(&mut v, &mut n, ID_LIT_BITS);
        assert!(ls >= 257 && ls <= 285, "OBL:lzcodes.length_symbol_in_257_285 [C10]");
        let le = take(&mut v, &mut n, RFC_LEN_EXTRA[(ls - 257) as usize] as u32);
        assert!(rfc_len_of(ls, le) == Some(len), "OBL:lzcodes.length_decodes_to_itself_by_rfc [C01 C10]");
        let ds = take(&mut v, &mut n, ID_DIST_BITS);
        assert!(ds <= 29, "OBL:lzcodes.distance_symbol_le_29 [C10]");
        let de = take(&mut v, &mut n, RFC_DIST_EXTRA[ds as usize] as u32);
        assert!(rfc_dist_of(ds, de) == Some(dist), "OBL:lzcodes.distance_decodes_to_itself_by_rfc [C01 C10]");
        assert!(take(&mut v, &mut n, ID_LIT_BITS) == 256 && n == 0, "OBL:lzcodes.ends_with_one_end_of_block [C10]");
        kani::cover!(len == 258 && dist == 32768, "COV:lz.max_match");
        kani::cover!(len == 3 && dist == 1, "COV:lz.min_match");
        kani::cover!(dist == 513, "COV:lz.large_dist_table");
    }

    fn lz_literals_body<const N: usize>() {
        let lits: [u8; N] = kani::any();
        let mut lz = LZOxide::new();
        let mut h = HuffmanOxide::default();
        let mut k = 0;
        while k < N { record_literal(&mut h, &mut lz, lits[k]); k += 1; }
        assert!(lz.total_bytes as usize == N && lz.code_position == 1 + N && lz.num_flags_left as usize == 8 - N, "OBL:lz.record_literal_counts [C01 C02]");
        let kk: usize = kani::any();
        kani::assume(kk < 288);
        let mut expect = 0u16; let mut q = 0; while q < N { if lits[q] as usize == kk { expect += 1; } q += 1; }
        assert!(h.count[0][kk] == expect, "OBL:lz.record_literal_histogram [C10]");
        identity_huff(&mut h);
        lz.init_flag();
        let mut buf = [0u8; 32];
        let mut out = OutputBufferOxide { inner: &mut buf, inner_pos: 0, local: true, bit_buffer: 0, bits_in: 0 };
        let r = compress_lz_codes(&h, &mut out, &lz.codes, lz.code_position);
        assert!(r.is_ok(), "OBL:lzcodes.literals_ok [C10]");
        let (ip, bbuf, bin) = (out.inner_pos, out.bit_buffer, out.bits_in);
        let (mut v, mut n) = emitted_bits(&buf, ip, bbuf, bin);
        let mut k = 0;
        while k < N { assert!(take(&mut v, &mut n, ID_LIT_BITS) == lits[k] as u32, "OBL:lzcodes.literals_in_order [C01 C10]"); k += 1; }
        assert!(take(&mut v, &mut n, ID_LIT_BITS) == 256 && n == 0, "OBL:lzcodes.literals_then_end_of_block [C10]");
    }
    #[kani::proof]
    #[kani::unwind(5)]
    fn k_lz_literals2_roundtrip() { lz_literals_body::<2>(); }
    #[kani::proof]
    #[kani::unwind(5)]
    fn k_lz_literals4_roundtrip() { lz_literals_body::<4>(); }

    // ------------------------------------------------------------------
    // K-flushmark : the real flush_block with an empty block body, all 8 flush modes, symbolic bit alignment,
    // symbolic configuration, first/later block. Oracle: an independent bit writer following RFC 1951 §3.2.3/3.2.4
    // and RFC 1950 §2.2 (trailer).
    // ------------------------------------------------------------------
    struct RefBits { v: u128, n: u32 }
    impl RefBits {
        fn put(&mut self, bits: u32, len: u32) { self.v |= (bits as u128) << self.n; self.n += len; }
        fn pad(&mut self) { self.n = (self.n + 7) & !7; }
    }

    /// CallbackOxide::flush_output contract model for K-flushmark (the real one is K-flushout's subject): reports
    /// everything as delivered; the harness then inspects the bytes where flush_block put them (local_buf).
    static FLUSHED_POS: core::sync::atomic::AtomicUsize = core::sync::atomic::AtomicUsize::new(usize::MAX);
    fn model_cb_flush_output<'a>(this: &mut CallbackOxide<'a>, saved: SavedOutputBufferOxide, params: &mut ParamsOxide) -> i32 where 'a: 'a {
        assert!(saved.local, "OBL:flushmark.small_output_uses_local_buffer [C02]");
        FLUSHED_POS.store(saved.pos, core::sync::atomic::Ordering::Relaxed);
        params.out_buf_ofs += saved.pos;
        0
    }

    /// Small-buffer model of OutputBufferOxide::put_bits: the same arithmetic, but the flushed bytes go to a
    /// 32-byte log instead of the 85 KiB buffer (symbolic-index writes into that buffer cost CBMC > 12 GB).
    /// k_put_bits_model_equiv checks this model against the real put_bits on a small real buffer for all inputs;
    /// V-def-bits (Verus) proves the real put_bits appends exactly the requested bits, unbounded.
    const Z8: core::sync::atomic::AtomicU8 = core::sync::atomic::AtomicU8::new(0xAA);
    static BYTE_LOG: [core::sync::atomic::AtomicU8; 32] = [Z8; 32];
    fn model_put_bits<'a>(this: &mut OutputBufferOxide<'a>, bits: u32, len: u32) where 'a: 'a {
        assert!(len <= 16 && bits <= ((1u32 << len) - 1u32), "OBL:flushmark.put_bits_pre_value_fits_len [C10]");
        assert!(this.bits_in + len <= 32, "OBL:flushmark.put_bits_pre_no_bits_lost [C10]");
        this.bit_buffer |= bits << this.bits_in;
        this.bits_in += len;
        // at most 4 whole bytes can be pending (bits_in <= 32): loop-free so that callers' loop bounds stay concrete
        model_put_byte(this); model_put_byte(this); model_put_byte(this); model_put_byte(this);
    }
    fn model_put_byte<'a>(this: &mut OutputBufferOxide<'a>) where 'a: 'a {
        if this.bits_in >= 8 {
            assert!(this.inner_pos < 32, "OBL:flushmark.marker_fits_in_32_bytes [C12]");
            BYTE_LOG[this.inner_pos].store(this.bit_buffer as u8, core::sync::atomic::Ordering::Relaxed);
            this.inner_pos += 1;
            this.bit_buffer >>= 8;
            this.bits_in -= 8;
        }
    }
    #[kani::proof]
    #[kani::unwind(5)]
    fn k_put_bits_model_equiv() {
        let mut real_buf = [0xAAu8; 32];
        let mut model_buf = [0xAAu8; 32];
        let (bits, len, bb, bi, pos): (u32, u32, u32, u32, usize) = (kani::any(), kani::any(), kani::any(), kani::any(), kani::any());
        kani::assume(len <= 16 && bits < (1 << len) && bi <= 16 && bi + len <= 32 && (bb as u64) < (1u64 << bi) && pos <= 27);
        let mut a = OutputBufferOxide { inner: &mut real_buf, inner_pos: pos, local: true, bit_buffer: bb, bits_in: bi };
        a.put_bits(bits, len);
        let (ap, ab, ai) = (a.inner_pos, a.bit_buffer, a.bits_in);
        let mut m = OutputBufferOxide { inner: &mut model_buf, inner_pos: pos, local: true, bit_buffer: bb, bits_in: bi };
        model_put_bits(&mut m, bits, len);
        assert!(ap == m.inner_pos && ab == m.bit_buffer && ai == m.bits_in, "OBL:bits.model_registers_equal_real_put_bits [C10 C12]");
        let k: usize = kani::any();
        kani::assume(k < 32);
        if k >= pos && k < ap {
            assert!(real_buf[k] == BYTE_LOG[k].load(core::sync::atomic::Ordering::Relaxed), "OBL:bits.model_bytes_equal_real_put_bits [C10 C12]");
            // and they are the requested bits, LSB first, after the pending ones
            let stream = (bb as u64) | ((bits as u64) << bi);
            assert!(real_buf[k] as u64 == (stream >> (8 * (k - pos) as u32)) & 0xFF, "OBL:bits.put_bits_appends_lsb_first [C02 C10]");
        } else {
            assert!(real_buf[k] == 0xAA, "OBL:bits.put_bits_frame [C02]");
        }
        assert!(ai < 8 && (ab as u64) == ((bb as u64) | ((bits as u64) << bi)) >> (8 * (ap - pos) as u32), "OBL:bits.put_bits_carries_remainder [C02 C10]");
        assert!(8 * (ap - pos) as u32 + ai == bi + len, "OBL:bits.put_bits_bit_count_conserved [C02 C10]");
    }

    /// The real flush_block, fully symbolic configuration / flush mode / bit alignment / block index / Adler value,
    /// empty block body. put_bits -> small-buffer model, flush_output -> recording model, <[u16]>::fill -> std model.
    #[kani::proof]
    #[kani::unwind(5)]
    #[kani::stub(<[u16]>::fill, model_fill)]
    #[kani::stub(CallbackOxide::flush_output, model_cb_flush_output)]
    #[kani::stub(OutputBufferOxide::put_bits, model_put_bits)]
    fn k_flush_block_markers() {
        let mut d = any_compressor!();
        let flush = any_flush();
        kani::assume(flush != TDEFLFlush::Finish || d.params.flags & TDEFL_FORCE_ALL_RAW_BLOCKS != 0);
        flush_block_markers_body(&mut d, flush, kani::any(), kani::any());
    }
    /// compress_block contract model for an EMPTY token buffer with the fixed code (RFC 1951 §3.2.6):
    /// block type 01, no tokens, end-of-block = seven 0 bits. The real compress_block is checked against exactly
    /// this contract in k_compress_block_static_empty (and the whole fixed table against the RFC there).
    fn model_compress_block_empty(huff: &mut HuffmanOxide, output: &mut OutputBufferOxide, lz: &LZOxide, static_block: bool) -> Result<bool> {
        assert!(static_block, "OBL:flushmark.small_block_uses_fixed_code [C10]");
        assert!(lz.total_bytes == 0 && lz.code_position == 0, "OBL:flushmark.model_only_for_empty_body [C10]");
        model_put_bits(output, 1, 2);
        model_put_bits(output, 0, 7);
        Ok(true)
    }
    /// Finish with a Huffman-coded (static) empty final block; compress_block -> contract model above.
    #[kani::proof]
    #[kani::unwind(5)]
    #[kani::stub(<[u16]>::fill, model_fill)]
    #[kani::stub(CallbackOxide::flush_output, model_cb_flush_output)]
    #[kani::stub(OutputBufferOxide::put_bits, model_put_bits)]
    #[kani::stub(compress_block, model_compress_block_empty)]
    fn k_flush_block_finish_static() {
        let mut d = any_compressor!();
        kani::assume(d.params.flags & TDEFL_FORCE_ALL_RAW_BLOCKS == 0);
        flush_block_markers_body(&mut d, TDEFLFlush::Finish, kani::any(), kani::any());
    }
    // ------------------------------------------------------------------
    // flush_block's stored-block BODY: the real flush_block (real put_bits / pad_to_bytes / write_bytes / flush_output)
    // on a forced-raw compressor whose pending block of `len` bytes starts at window index `start`. The window is laid
    // out the way the engines leave it: byte i of the block at index (start+i) & MASK, and the first MAX_MATCH_LEN-1
    // (257) window bytes mirrored behind the window end; the mirror slot 32768+257 is never written by any engine and
    // keeps its allocation value. Contract from C01/C10: the block is 00 + pad, LEN, ~LEN, then exactly the block's
    // bytes in order -- also when it straddles the window end by any amount.
    // ------------------------------------------------------------------
    fn stored_pat(i: usize) -> u8 { ((i as u8).wrapping_mul(7).wrapping_add(3)) | 1 }
    fn stored_body_case(start: usize, len: usize) {
        let mut d = CompressorOxide::with_params(DataFormat::Raw, 0, CompressionStrategy::Default, 15);
        concrete_window!(d.dict);
        let mut i = 0;
        while i < len {
            let idx = (start + i) & LZ_DICT_SIZE_MASK;
            d.dict.b.dict[idx] = stored_pat(i);
            if idx < MAX_MATCH_LEN - 1 { d.dict.b.dict[LZ_DICT_SIZE + idx] = stored_pat(i); }
            i += 1;
        }
        let base = 3 * 65536usize; // stream positions are unmasked
        d.dict.code_buf_dict_pos = base + start;
        d.dict.lookahead_pos = base + start + len;
        d.dict.lookahead_size = 0;
        d.dict.size = LZ_DICT_SIZE;
        d.lz.total_bytes = len as u32;
        d.params.block_index = 1;
        let inb = [0u8; 1];
        let mut outb = [0xAAu8; 320];
        let r;
        {
            let mut cb = CallbackOxide::new_callback_buf(&inb[..0], &mut outb[..]);
            r = flush_block(&mut d, &mut cb, TDEFLFlush::None);
        }
        assert!(matches!(r, Ok(0)), "OBL:storedbody.ok_and_drained_when_room [C02]");
        assert!(outb[0] == 0 && outb[1] == (len & 0xFF) as u8 && outb[2] == (len >> 8) as u8 && outb[3] == !outb[1] && outb[4] == !outb[2],
            "OBL:storedbody.header_is_type00_len_nlen [C10]");
        // concrete indices throughout: every comparison folds during symbolic execution
        let mut k = 0;
        while k < 320 - 5 {
            if k < len {
                assert!(outb[5 + k] == stored_pat(k), "OBL:storedbody.block_bytes_are_the_window_bytes_in_order_across_the_window_end [C01 C02 C10]");
            } else {
                assert!(outb[5 + k] == 0xAA, "OBL:storedbody.nothing_emitted_past_the_block [C02 C08]");
            }
            k += 1;
        }
        assert!(d.lz.total_bytes == 0 && d.params.saved_bits_in == 0, "OBL:storedbody.lz_buffer_reset_and_byte_aligned [C02]");
    }
    #[kani::proof]
    #[kani::unwind(320)]
    fn k_flush_block_stored_body_wrap() {
        stored_body_case(LZ_DICT_SIZE - 2, 260);  // spills exactly MAX_MATCH_LEN bytes past the window end
    }
    #[kani::proof]
    #[kani::unwind(320)]
    fn k_flush_block_stored_body_short_spill() {
        stored_body_case(LZ_DICT_SIZE - 7, 33);
    }

    /// reverse the low n bits of v
    fn rev_bits(v: u32, n: u32) -> u32 { let mut r = 0; let mut i = 0; while i < 16 { if i < n && (v >> i) & 1 == 1 { r |= 1 << (n - 1 - i); } i += 1; } r }
    /// RFC 1951 §3.2.6 fixed code, MSB-first code value
    fn rfc_fixed_code(s: u32) -> (u32, u32) {
        if s < 144 { (0b0011_0000 + s, 8) } else if s < 256 { (0b1_1001_0000 + (s - 144), 9) } else if s < 280 { (s - 256, 7) } else { (0b1100_0000 + (s - 280), 8) }
    }
    /// The real compress_block (start_static_block, optimize_table, compress_lz_codes, put_bits) on an empty token
    /// buffer, every bit alignment: emits 01 + 0000000 and builds exactly the RFC fixed code.
    #[kani::proof]
    #[kani::stub(OutputBufferOxide::put_bits, model_put_bits)]
    fn k_compress_block_static_empty() {
        let mut b = 0;
        while b < 8 {
            if b != 0 && b != 5 { b += 1; continue; } // two alignments (aligned / unaligned); each costs ~640 slow loop iterations
            let mut h = HuffmanOxide::default();
            let mut lz = LZOxide::new();
            lz.init_flag();
            let mut buf = [0xAAu8; 32];
            let bb0: u32 = kani::any();
            kani::assume(bb0 < (1 << b));
            let mut out = OutputBufferOxide { inner: &mut buf, inner_pos: 0, local: true, bit_buffer: bb0, bits_in: b };
            let r = compress_block(&mut h, &mut out, &lz, true);
            assert!(matches!(r, Ok(true)), "OBL:staticblock.ok [C10]");
            let (ip, bbuf, bin) = (out.inner_pos, out.bit_buffer, out.bits_in);
            let mut lg = [0u8; 32];
            let mut q = 0; while q < 4 { lg[q] = BYTE_LOG[q].load(core::sync::atomic::Ordering::Relaxed); q += 1; }
            let (v, n) = emitted_bits(&lg, ip, bbuf, bin);
            assert!(n == b + 9 && v == (bb0 as u128) | (1u128 << b), "OBL:staticblock.empty_body_is_type01_then_seven_zero_bits [C10 C12]");
            if b == 0 {
                let s: usize = kani::any();
                kani::assume(s < 288);
                let (code, len) = rfc_fixed_code(s as u32);
                assert!(h.code_sizes[0][s] as u32 == len && h.codes[0][s] as u32 == rev_bits(code, len), "OBL:staticblock.litlen_codes_are_rfc_fixed_code [C01 C03 C10]");
                if s < 32 { assert!(h.code_sizes[1][s] == 5 && h.codes[1][s] as u32 == rev_bits(s as u32, 5), "OBL:staticblock.dist_codes_are_rfc_fixed_code [C01 C03 C10]"); }
            }
            b += 1;
        }
    }

    fn flush_block_markers_body(d: &mut CompressorOxide, flush: TDEFLFlush, bits_in0: u32, first: bool) {
        let bb0: u32 = kani::any();
        kani::assume(bits_in0 < 8 && bb0 < (1 << bits_in0));
        d.params.saved_bits_in = bits_in0;
        d.params.saved_bit_buffer = bb0;
        d.params.out_buf_ofs = 0;
        d.params.block_index = if first { 0 } else { kani::any() };
        kani::assume(first || d.params.block_index != 0);
        kani::assume(d.params.block_index < u32::MAX);
        let bi0 = d.params.block_index;
        d.params.adler32 = kani::any();
        let adler = d.params.adler32;
        let flags = d.params.flags;
        let wbm = d.params.window_bits_max;
        let inb = [0u8; 1];
        let mut outb = [0xAAu8; 24];
        let r;
        {
            let mut cb = CallbackOxide::new_callback_buf(&inb[..0], &mut outb[..]);
            r = flush_block(d, &mut cb, flush);
        }
        assert!(matches!(r, Ok(0)), "OBL:flushmark.ok_and_drained_when_room [C02 C12]");
        let zlib = flags & TDEFL_WRITE_ZLIB_HEADER != 0;
        let raw = flags & TDEFL_FORCE_ALL_RAW_BLOCKS != 0;
        // ---- reference bit stream ----
        let mut e = RefBits { v: bb0 as u128, n: bits_in0 };
        if zlib && first {
            let h = header_from_flags(flags, wbm); // validity and window field: K-zhdr
            e.put(h[0] as u32, 8);
            e.put(h[1] as u32, 8);
        }
        if flush == TDEFLFlush::Finish {
            e.put(1, 1); // BFINAL only on Finish
            if raw { e.put(0, 2); e.pad(); e.put(0, 16); e.put(0xFFFF, 16); } else { e.put(1, 2); e.put(0, 7); }
        }
        let aligned = e.n & 7 == 0;
        match flush {
            TDEFLFlush::Finish => {
                e.pad();
                if zlib { e.put(adler >> 24, 8); e.put((adler >> 16) & 0xFF, 8); e.put((adler >> 8) & 0xFF, 8); e.put(adler & 0xFF, 8); }
            }
            TDEFLFlush::Partial => { e.put(0, 1); e.put(1, 2); e.put(0, 7); }
            TDEFLFlush::PartialOpt => { if !aligned { e.put(0, 1); e.put(1, 2); e.put(0, 7); } }
            TDEFLFlush::Sync | TDEFLFlush::Full => { e.put(0, 3); e.pad(); e.put(0, 16); e.put(0xFFFF, 16); }
            TDEFLFlush::SyncOpt => { if !aligned { e.put(0, 3); e.pad(); e.put(0, 16); e.put(0xFFFF, 16); } }
            TDEFLFlush::None | TDEFLFlush::NoSync => {}
        }
        let nbytes = (e.n / 8) as usize;
        assert!(FLUSHED_POS.load(core::sync::atomic::Ordering::Relaxed) == nbytes, "OBL:flushmark.emits_exactly_the_expected_number_of_bytes [C09 C10 C12]");
        assert!(d.params.saved_bits_in == e.n & 7 && d.params.saved_bit_buffer as u128 == e.v >> (8 * nbytes as u32), "OBL:flushmark.partial_byte_carried_to_next_block [C02 C12]");
        let lb = |i: usize| BYTE_LOG[i].load(core::sync::atomic::Ordering::Relaxed);
        let k: usize = kani::any();
        kani::assume(k < 24);
        if k < nbytes {
            assert!(lb(k) as u128 == (e.v >> (8 * k as u32)) & 0xFF, "OBL:flushmark.bytes_equal_rfc_reference [C09 C10 C12]");
        } else {
            assert!(lb(k) == 0xAA, "OBL:flushmark.nothing_emitted_past_reported_count [C02 C12]");
        }
        assert!(outb[k] == 0xAA, "OBL:flushmark.caller_buffer_written_only_through_flush_output [C02 C08]");
        if flush == TDEFLFlush::Sync || flush == TDEFLFlush::Full {
            assert!(d.params.saved_bits_in == 0 && nbytes >= 4 && lb(nbytes - 4) == 0 && lb(nbytes - 3) == 0 && lb(nbytes - 2) == 0xFF && lb(nbytes - 1) == 0xFF,
                "OBL:flushmark.sync_full_end_byte_aligned_with_empty_stored_marker [C12]");
        }
        if flush == TDEFLFlush::None || flush == TDEFLFlush::NoSync {
            assert!(nbytes == (if zlib && first { 2 } else { 0 }) && d.params.saved_bits_in == bits_in0 && ((zlib && first) || d.params.saved_bit_buffer == bb0),
                "OBL:flushmark.nosync_and_none_emit_nothing_but_the_header [C12]");
        }
        if flush == TDEFLFlush::Finish {
            assert!(d.params.saved_bits_in == 0, "OBL:flushmark.finish_ends_byte_aligned [C09]");
        }
        assert!(d.params.block_index == bi0 + 1, "OBL:flushmark.block_index_incremented_so_header_written_once [C09]");
        assert!(d.lz.code_position == 1 && d.lz.flag_position == 0 && d.lz.num_flags_left == 8 && d.lz.total_bytes == 0, "OBL:flushmark.lz_buffer_reset [C02]");
        kani::cover!(zlib && first, "COV:flushmark.header_emitted");
        kani::cover!(!aligned, "COV:flushmark.unaligned");
    }

    // ------------------------------------------------------------------
    // K-normalstep : the real compress_normal on a few bytes, from a symbolic parser state (saved lazy match,
    // lookahead, dictionary size, window bits, flags), with find_match / record_match / record_literal /
    // flush_block replaced by contract models that ASSERT their preconditions at the real call sites and keep
    // a ghost log. Decides the token-level clauses of C10/C11 and the lazy-match bookkeeping of C02.
    // ------------------------------------------------------------------
    use core::sync::atomic::{AtomicUsize as AU, AtomicU32 as A32, Ordering::Relaxed as RLX};
    static NS_CAP: AU = AU::new(0);          // 1 << max(window_bits_max, 8)
    static NS_FLAGS: A32 = A32::new(0);
    static NS_RECORDED: AU = AU::new(0);     // bytes covered by recorded tokens
    static NS_TOKENS: AU = AU::new(0);
    static NS_FM_POS: [AU; 2] = [AU::new(usize::MAX), AU::new(usize::MAX)];   // last two find_match calls
    static NS_FM_DIST: [A32; 2] = [A32::new(0), A32::new(0)];
    static NS_FM_LEN: [A32; 2] = [A32::new(0), A32::new(0)];
    static NS_BASE: AU = AU::new(0);         // stream position of the first byte not yet covered at entry
    static NS_SIZE_AT_BASE: AU = AU::new(0); // history available before NS_BASE

    fn model_find_match(this: &DictOxide, lookahead_pos: usize, max_dist: usize, max_match_len: u32, match_dist: u32, match_len: u32) -> (u32, u32) {
        assert!(max_dist <= this.size, "OBL:normal.find_match_never_reaches_before_start_of_data [C10 C01]");
        assert!(max_dist <= NS_CAP.load(RLX), "OBL:normal.find_match_distance_capped_by_declared_window [C11]");
        assert!(max_match_len as usize <= 258 + 3, "OBL:normal.find_match_limited_to_lookahead [C01 C10]");
        // contract of find_match (K-findmatch): either the incoming (dist, max(len,1)) or a strictly longer match within bounds
        // with a probe budget of 1 (zero probes requested: Huffman-only) the real find_match returns before probing
        let budget = if match_len.max(1) < 32 { this.max_probes[0] } else { this.max_probes[1] };
        let better: bool = kani::any() && budget > 1;
        let (d, l) = if better && max_dist >= 1 && (match_len.max(1)) < max_match_len.min(258) {
            let d: u32 = kani::any();
            let l: u32 = kani::any();
            kani::assume(d >= 1 && d as usize <= max_dist && l > match_len.max(1) && l <= max_match_len.min(258));
            (d, l)
        } else { (match_dist, match_len.max(1)) };
        NS_FM_POS[1].store(NS_FM_POS[0].load(RLX), RLX); NS_FM_DIST[1].store(NS_FM_DIST[0].load(RLX), RLX); NS_FM_LEN[1].store(NS_FM_LEN[0].load(RLX), RLX);
        NS_FM_POS[0].store(lookahead_pos, RLX); NS_FM_DIST[0].store(d, RLX); NS_FM_LEN[0].store(l, RLX);
        (d, l)
    }

    fn model_record_match(h: &mut HuffmanOxide, lz: &mut LZOxide, match_len: u32, match_dist: u32) {
        let flags = NS_FLAGS.load(RLX);
        assert!(match_len >= 3 && match_len <= 258, "OBL:normal.match_length_3_to_258 [C10]");
        assert!(match_dist >= 1 && match_dist <= 32768, "OBL:normal.match_distance_1_to_32768 [C10]");
        assert!(match_dist as usize <= NS_CAP.load(RLX), "OBL:normal.match_distance_within_declared_window [C11]");
        if flags & TDEFL_RLE_MATCHES != 0 { assert!(match_dist == 1, "OBL:normal.rle_mode_only_distance_1 [C10 C11]"); }
        if flags & TDEFL_FILTER_MATCHES != 0 { assert!(match_len >= 5, "OBL:normal.filtered_mode_no_match_shorter_than_5 [C10]"); }
        if flags & MAX_PROBES_MASK == 0 && flags & TDEFL_RLE_MATCHES == 0 { assert!(false, "OBL:normal.huffman_only_emits_no_matches [C10]"); }
        // the match must have been found AT the stream position where this token starts (lazy matching records the
        // previous position's match one step later), and it must not reach before the start of the data
        let start = NS_BASE.load(RLX) + NS_RECORDED.load(RLX);
        assert!(match_dist as usize <= NS_SIZE_AT_BASE.load(RLX) + NS_RECORDED.load(RLX), "OBL:normal.match_never_reaches_before_start_of_data [C10 C01 C12]");
        if flags & TDEFL_RLE_MATCHES == 0 {
            let hit0 = NS_FM_POS[0].load(RLX) == start && NS_FM_DIST[0].load(RLX) == match_dist && NS_FM_LEN[0].load(RLX) == match_len;
            let hit1 = NS_FM_POS[1].load(RLX) == start && NS_FM_DIST[1].load(RLX) == match_dist && NS_FM_LEN[1].load(RLX) == match_len;
            let carried = NS_TOKENS.load(RLX) == 0 && NS_SAVED_VALID.load(RLX) == 1; // saved match carried in from the previous call
            assert!(hit0 || hit1 || carried, "OBL:normal.recorded_match_was_found_at_its_own_position [C01 C02]");
        }
        NS_RECORDED.fetch_add(match_len as usize, RLX);
        NS_TOKENS.fetch_add(1, RLX);
        lz.total_bytes += match_len;
    }
    static NS_SAVED_VALID: AU = AU::new(0);
    fn model_record_literal(h: &mut HuffmanOxide, lz: &mut LZOxide, lit: u8) {
        NS_RECORDED.fetch_add(1, RLX);
        NS_TOKENS.fetch_add(1, RLX);
        lz.total_bytes += 1;
    }
    fn model_flush_block_noop(d: &mut CompressorOxide, callback: &mut CallbackOxide, flush: TDEFLFlush) -> Result<i32> { Ok(0) }
    static NS_LAST_LIT: AU = AU::new(usize::MAX);
    fn model_record_literal_logged(h: &mut HuffmanOxide, lz: &mut LZOxide, lit: u8) {
        NS_LAST_LIT.store(lit as usize, RLX);
        model_record_literal(h, lz, lit)
    }

    #[kani::proof]
    #[kani::unwind(8)]
    #[kani::stub(DictOxide::find_match, model_find_match)]
    #[kani::stub(record_match, model_record_match)]
    #[kani::stub(record_literal, model_record_literal)]
    #[kani::stub(flush_block, model_flush_block_noop)]
    fn k_normal_step_zeros() { normal_step_body([0, 0, 0], 0, 3); normal_step_body([0, 0, 0], 2, 2); }
    /// distinct input bytes: no run, so the RLE branch finds nothing; zeros: runs (window content is zero too)
    #[kani::proof]
    #[kani::unwind(8)]
    #[kani::stub(DictOxide::find_match, model_find_match)]
    #[kani::stub(record_match, model_record_match)]
    #[kani::stub(record_literal, model_record_literal)]
    #[kani::stub(flush_block, model_flush_block_noop)]
    fn k_normal_step_distinct() { normal_step_body([1, 2, 3], 0, 3); normal_step_body([1, 2, 3], 2, 2); }
    fn normal_step_body(inb: [u8; 3], la0: usize, inl: usize) {
        let mut d = any_compressor!();
        concrete_window!(d.dict);
        let flags = d.params.flags;
        kani::assume(flags & TDEFL_FORCE_ALL_RAW_BLOCKS == 0);
        NS_FLAGS.store(flags, RLX);
        NS_RECORDED.store(0, RLX); NS_TOKENS.store(0, RLX);
        NS_FM_POS[0].store(usize::MAX, RLX); NS_FM_POS[1].store(usize::MAX, RLX);
        NS_CAP.store(1usize << core::cmp::max(d.params.window_bits_max, 8), RLX);
        // symbolic parser state between two calls
        // concrete positions and input bytes (symbolic ones mean symbolic-index writes into the 33 KiB window and
        // the two 64 KiB hash tables: > 12 GB); everything the token logic branches on stays symbolic
        let pos0: usize = 40000;
        let size0: usize = kani::any();
        kani::assume(la0 <= 2 && size0 <= LZ_DICT_SIZE - la0 && size0 <= pos0);
        d.dict.lookahead_size = la0;
        d.dict.lookahead_pos = pos0;
        d.dict.size = size0;
        let sl: u32 = kani::any();
        let sd: u32 = kani::any();
        // a carried lazy match was found one position earlier within the lookahead of that time
        // (found by find_match at position pos0-1, where the history was size0-1 bytes; Huffman-only never finds one)
        kani::assume(sl == 0 || (sl >= 3 && sl as usize <= la0 + 1 && sd >= 1 && (sd as usize) + 1 <= size0 && sd as usize <= NS_CAP.load(RLX)
            && (flags & TDEFL_RLE_MATCHES == 0) && (flags & MAX_PROBES_MASK != 0) && !d.params.greedy_parsing && (flags & TDEFL_FILTER_MATCHES == 0 || sl >= 6)));
        d.params.saved_match_len = sl;
        d.params.saved_match_dist = sd;
        d.params.saved_lit = kani::any();
        NS_SAVED_VALID.store((sl != 0) as usize, RLX);
        NS_BASE.store(pos0 - (sl != 0) as usize, RLX);
        NS_SIZE_AT_BASE.store(size0 - (sl != 0) as usize, RLX);
        d.params.flush = any_flush();
        kani::assume(d.params.flush != TDEFLFlush::None);
        d.params.src_pos = 0;
        let mut outb = [0u8; 8];
        let ok;
        {
            let mut cb = CallbackOxide::new_callback_buf(&inb[..inl], &mut outb[..]);
            ok = compress_normal(&mut d, &mut cb);
        }
        assert!(ok, "OBL:normal.succeeds_when_no_block_flush_needed [C02]");
        assert!(d.params.src_pos == inl, "OBL:normal.consumes_all_offered_input [C02]");
        assert!(d.dict.lookahead_size == 0, "OBL:normal.flush_request_drains_lookahead [C02 C12]");
        // every byte that left the lookahead is covered by exactly one token, except the first byte of a pending lazy match
        let moved = d.dict.lookahead_pos - pos0;
        assert!(moved == la0 + inl, "OBL:normal.lookahead_pos_advances_by_bytes_processed [C02]");
        let pend0 = (sl != 0) as usize;
        let pend1 = (d.params.saved_match_len != 0) as usize;
        assert!(moved + pend0 == NS_RECORDED.load(RLX) + pend1, "OBL:normal.every_byte_covered_by_exactly_one_token [C01 C02]");
        assert!(pend1 == 0, "OBL:normal.no_lazy_match_left_pending_after_flush_request [C02 C12]");
        assert!(d.dict.size <= LZ_DICT_SIZE && d.dict.size == core::cmp::min(size0 + moved, LZ_DICT_SIZE), "OBL:normal.dict_size_tracks_history [C10]");
        kani::cover!(NS_TOKENS.load(RLX) >= 2, "COV:normal.two_tokens");
        kani::cover!(sl != 0, "COV:normal.carried_lazy_match");
        kani::cover!(flags & TDEFL_RLE_MATCHES != 0 && NS_RECORDED.load(RLX) > NS_TOKENS.load(RLX), "COV:normal.rle_match");
    }

    // ------------------------------------------------------------------
    // K-faststep : the real compress_fast on a few bytes with a flush requested. Dictionary reads
    // (read_unaligned_u32/u64) are replaced by nondeterministic models (any window content), LZOxide::write_code
    // by a logging model, flush_block by a no-op model. Token-level clauses of C10/C11 and the drain clause of C12.
    // ------------------------------------------------------------------
    static FS_LOG: [core::sync::atomic::AtomicU8; 24] = [Z8; 24];
    static FS_N: AU = AU::new(0);
    fn model_read_u32(this: &DictOxide, pos: usize) -> u32 { kani::any() }
    /// pairs of reads (p then q) always differ somewhere in their 8 bytes: the 32-iteration compare loop then exits
    /// in its first iteration (bounded stand-in: candidate matches of length 3..=10 before clamping to the lookahead)
    static FS_LAST: core::sync::atomic::AtomicU64 = core::sync::atomic::AtomicU64::new(0);
    static FS_TOGGLE: AU = AU::new(0);
    fn model_read_u64(this: &DictOxide, pos: usize) -> u64 {
        let v: u64 = kani::any();
        if FS_TOGGLE.fetch_add(1, RLX) % 2 == 0 { FS_LAST.store(v, RLX); } else { kani::assume(v != FS_LAST.load(RLX)); }
        v
    }
    fn model_write_code(this: &mut LZOxide, val: u8) {
        let n = FS_N.fetch_add(1, RLX);
        assert!(n < 24, "OBL:fast.at_most_three_code_bytes_per_input_byte [C02]");
        FS_LOG[n].store(val, RLX);
        this.code_position += 1;
    }

    #[kani::proof]
    #[kani::unwind(7)]
    #[kani::stub(DictOxide::read_unaligned_u32, model_read_u32)]
    #[kani::stub(DictOxide::read_unaligned_u64, model_read_u64)]
    #[kani::stub(LZOxide::write_code, model_write_code)]
    #[kani::stub(flush_block, model_flush_block_noop)]
    fn k_fast_step() {
        let mut d = any_compressor!();
        concrete_window!(d.dict);
        let flags = d.params.flags;
        kani::assume(flags & TDEFL_FORCE_ALL_RAW_BLOCKS == 0);
        let cap = 1usize << core::cmp::max(d.params.window_bits_max, 8);
        let pos0: usize = 40000;
        let size0: usize = kani::any();
        kani::assume(size0 <= LZ_DICT_SIZE);
        d.dict.lookahead_size = 0;
        d.dict.lookahead_pos = pos0;
        d.dict.size = size0;
        d.params.flush = any_flush();
        kani::assume(d.params.flush != TDEFLFlush::None);
        d.params.src_pos = 0;
        // any hash-table content: the probed entry is what decides the candidate distance
        let hidx: usize = kani::any();
        kani::assume(hidx < 4096);
        d.dict.b.hash[hidx] = kani::any();
        const N: usize = 5;
        let inb: [u8; N] = kani::any();
        let mut outb = [0u8; 8];
        let ok;
        {
            let mut cb = CallbackOxide::new_callback_buf(&inb[..], &mut outb[..]);
            ok = compress_fast(&mut d, &mut cb);
        }
        assert!(ok && d.params.src_pos == N, "OBL:fast.consumes_all_offered_input [C02]");
        assert!(d.dict.lookahead_size == 0, "OBL:fast.flush_request_drains_lookahead_completely [C12 C02]");
        assert!(d.dict.lookahead_pos == pos0 + N && d.lz.total_bytes as usize == N, "OBL:fast.every_byte_covered_by_exactly_one_token [C01 C02]");
        // parse the token log: flag bits (LSB first, as compress_lz_codes reads them) + code bytes
        let ntok = 8 - d.lz.num_flags_left as usize;
        assert!(ntok >= 1 && ntok <= N, "OBL:fast.token_count [C02]");
        let flagbyte = d.lz.codes[0] >> d.lz.num_flags_left;
        let mut i = 0usize; let mut covered = 0usize; let mut t = 0;
        while t < N {
            if t < ntok {
                if (flagbyte >> t) & 1 == 1 {
                    let len = FS_LOG[i].load(RLX) as usize + 3;
                    let dist = (FS_LOG[i + 1].load(RLX) as usize | (FS_LOG[i + 2].load(RLX) as usize) << 8) + 1;
                    i += 3;
                    assert!(len >= 3 && len <= 258 && covered + len <= N, "OBL:fast.match_length_3_to_258_and_inside_the_input [C10 C01]");
                    assert!(dist >= 1 && dist <= size0 + covered, "OBL:fast.match_never_reaches_before_start_of_data [C10]");
                    assert!(dist <= cap, "OBL:fast.match_distance_within_declared_window [C11]");
                    assert!(!(len == 3 && dist >= 8 * 1024), "OBL:fast.no_far_minimum_length_match [C10]");
                    covered += len;
                } else { i += 1; covered += 1; }
            }
            t += 1;
        }
        assert!(covered == N && i == FS_N.load(RLX), "OBL:fast.tokens_cover_the_input_exactly [C01 C02]");
        kani::cover!(ntok < N, "COV:fast.some_match");
        kani::cover!(ntok == N, "COV:fast.all_literals");
    }

    // ------------------------------------------------------------------
    // K-def-reset : CompressorOxide::reset against a fresh compressor with the same settings, symbolic pre-state
    // ------------------------------------------------------------------
    #[kani::proof]
    #[kani::stub(<[u16]>::fill, model_fill)]
    fn k_compressor_reset() {
        let mut d = any_compressor!();
        let (flags, wbm, greedy, probes) = (d.params.flags, d.params.window_bits_max, d.params.greedy_parsing, d.dict.max_probes);
        // arbitrary history
        d.params.block_index = kani::any(); d.params.saved_match_dist = kani::any(); d.params.saved_match_len = kani::any(); d.params.saved_lit = kani::any();
        d.params.flush = any_flush(); d.params.flush_ofs = kani::any(); d.params.flush_remaining = kani::any(); d.params.finished = kani::any();
        d.params.adler32 = kani::any(); d.params.src_pos = kani::any(); d.params.out_buf_ofs = kani::any(); d.params.prev_return_status = any_status();
        d.params.saved_bit_buffer = kani::any(); d.params.saved_bits_in = kani::any();
        d.dict.code_buf_dict_pos = kani::any(); d.dict.lookahead_size = kani::any(); d.dict.lookahead_pos = kani::any(); d.dict.size = kani::any();
        d.lz.code_position = kani::any(); d.lz.flag_position = kani::any(); d.lz.total_bytes = kani::any(); d.lz.num_flags_left = kani::any();
        let (i_dict, i_lz, i_lb, i_h): (usize, usize, usize, usize) = (kani::any(), kani::any(), kani::any(), kani::any());
        kani::assume(i_dict < LZ_DICT_FULL_SIZE && i_lz < LZ_CODE_BUF_SIZE && i_lb < OUT_BUF_SIZE && i_h < MAX_HUFF_SYMBOLS);
        d.dict.b.dict[0] = kani::any(); d.lz.codes[i_lz] = kani::any(); d.params.local_buf.b[i_lb] = kani::any();
        // every one of the nine Huffman arrays (3 tables x count / codes / code_sizes), at a symbolic table and index
        let t_h: usize = kani::any();
        kani::assume(t_h < 3);
        d.huff.count[t_h][i_h] = kani::any(); d.huff.codes[t_h][i_h] = kani::any(); d.huff.code_sizes[t_h][i_h] = kani::any();
        d.dict.b.hash[0] = kani::any(); d.dict.b.next[0] = kani::any();

        d.reset();

        assert!(d.params.flags == flags && d.params.window_bits_max == wbm && d.params.greedy_parsing == greedy && d.dict.max_probes[0] == probes[0] && d.dict.max_probes[1] == probes[1],
            "OBL:reset.compressor_settings_preserved [C18 C11]");
        assert!(d.params.block_index == 0 && d.params.saved_match_dist == 0 && d.params.saved_match_len == 0 && d.params.saved_lit == 0, "OBL:reset.compressor_lazy_match_and_block_index_cleared [C18 C02]");
        assert!(d.params.flush == TDEFLFlush::None && d.params.flush_ofs == 0 && d.params.flush_remaining == 0 && !d.params.finished, "OBL:reset.compressor_pending_output_state_cleared [C18 C14]");
        assert!(d.params.adler32 == 1 && d.params.src_pos == 0 && d.params.out_buf_ofs == 0 && d.params.prev_return_status == TDEFLStatus::Okay, "OBL:reset.compressor_checksum_and_status_cleared [C18 C16]");
        assert!(d.params.saved_bit_buffer == 0 && d.params.saved_bits_in == 0, "OBL:reset.compressor_partial_byte_cleared [C18]");
        assert!(d.dict.code_buf_dict_pos == 0 && d.dict.lookahead_size == 0 && d.dict.lookahead_pos == 0 && d.dict.size == 0, "OBL:reset.compressor_window_cursors_cleared [C18]");
        assert!(d.lz.code_position == 1 && d.lz.flag_position == 0 && d.lz.total_bytes == 0 && d.lz.num_flags_left == 8, "OBL:reset.compressor_token_buffer_cursors_fresh [C18]");
        assert!(d.lz.codes[i_lz] == 0 && d.params.local_buf.b[i_lb] == 0, "OBL:reset.compressor_buffers_zeroed [C18]");
        assert!(d.huff.count[t_h][i_h] == 0 && d.huff.codes[t_h][i_h] == 0 && d.huff.code_sizes[t_h][i_h] == 0, "OBL:reset.compressor_huffman_frequencies_codes_and_lengths_all_zeroed [C18]");
        // the fill model stands for all three whole-array fills (window u8, next u16, hash u16): each must be a fill of
        // the whole array with 0 (observed at index 0 + recorded lengths; the std contract extends it to every element)
        assert!(FILL_CALLS.load(core::sync::atomic::Ordering::Relaxed) == 3 && FILL_LEN_SUM.load(core::sync::atomic::Ordering::Relaxed) == LZ_DICT_FULL_SIZE + 2 * LZ_DICT_SIZE
            && d.dict.b.dict[0] == 0 && d.dict.b.hash[0] == 0 && d.dict.b.next[0] == 0, "OBL:reset.compressor_window_and_hash_chains_zeroed [C18]");
    }

    // ------------------------------------------------------------------
    // K-huff : HuffmanOxide::enforce_max_code_size (length limiting of the dynamic codes), bounded:
    // a depth histogram of a full binary tree with up to 9 leaves at depths up to 9, limit 7 (code-length alphabet).
    // Contract (RFC 1951: code-length sets must be complete and within the limit): afterwards no code is longer
    // than the limit, the number of codes is preserved and the Kraft sum is exactly 1.
    // ------------------------------------------------------------------
    #[kani::proof]
    #[kani::unwind(34)]
    fn k_enforce_max_code_size_kraft() {
        const D: usize = 10; // depths 1..=9 used
        let mut num_codes = [0i32; 33];
        let mut kraft_in: u32 = 0;   // in units of 2^-9
        let mut n: i32 = 0;
        let mut i = 1;
        while i < D {
            let c: u8 = kani::any();
            kani::assume(c <= 3);
            num_codes[i] = c as i32;
            n += c as i32;
            kraft_in += (c as u32) << (9 - i);
            i += 1;
        }
        // what calculate_minimum_redundancy produces: the depth histogram of a full binary tree (Kraft sum 1), >= 2 leaves
        kani::assume(kraft_in == 1 << 9 && n >= 2 && n <= 9);
        let limit: usize = 7; // the code-length alphabet's limit (concrete: a symbolic slice bound exhausts memory)
        HuffmanOxide::enforce_max_code_size(&mut num_codes, n as usize, limit);
        let mut kraft_out: u32 = 0;
        let mut total: i32 = 0;
        let mut j = 1;
        while j < D {
            if j <= limit { assert!(num_codes[j] >= 0, "OBL:huff.no_negative_code_count [C10]"); kraft_out += (num_codes[j] as u32) << (limit - j); total += num_codes[j]; }
            j += 1;
        }
        assert!(total == n, "OBL:huff.number_of_codes_preserved [C10]");
        assert!(kraft_out == 1 << limit, "OBL:huff.length_limited_code_set_is_complete_kraft_sum_1 [C10]");
        kani::cover!(kraft_in == 1 << 9 && total == n && n >= 9, "COV:huff.nine_codes");
    }

    // ------------------------------------------------------------------
    // K-fasttail : the real compress_fast with a flush requested and fewer than 4 bytes of work (the tail path:
    // no hashing, only the literal loop). Symbolic data, flags, window bits, flush mode; concrete positions.
    // ------------------------------------------------------------------
    fn fast_tail_body<const N: usize>(la0: usize, pos0: usize) {
        let mut d = any_compressor!();
        concrete_window!(d.dict);
        kani::assume(d.params.flags & TDEFL_FORCE_ALL_RAW_BLOCKS == 0);
        d.dict.lookahead_pos = pos0;
        d.dict.lookahead_size = la0;
        d.dict.size = kani::any();
        kani::assume(d.dict.size <= LZ_DICT_SIZE - la0);
        d.params.flush = any_flush();
        kani::assume(d.params.flush != TDEFLFlush::None);
        d.params.src_pos = 0;
        let pre: [u8; 3] = kani::any();
        let mut k = 0; while k < 3 { if k < la0 { d.dict.b.dict[(pos0 + k) & LZ_DICT_SIZE_MASK] = pre[k]; } k += 1; }
        let inb: [u8; N] = kani::any();
        let mut outb = [0u8; 8];
        let ok;
        {
            let mut cb = CallbackOxide::new_callback_buf(&inb[..], &mut outb[..]);
            ok = compress_fast(&mut d, &mut cb);
        }
        let total = la0 + N;
        assert!(ok && d.params.src_pos == N, "OBL:fasttail.consumes_all_offered_input [C02]");
        assert!(d.dict.lookahead_size == 0, "OBL:fasttail.flush_request_drains_even_a_1_to_3_byte_lookahead [C12 C02]");
        assert!(d.dict.lookahead_pos == pos0 + total && d.lz.total_bytes as usize == total, "OBL:fasttail.every_byte_becomes_a_token [C01 C02 C12]");
        // the input landed in the window at its stream position, and -- for the first 257 window bytes -- in the mirror
        // behind the window's end too (the matchers read up to 258 bytes past a position without wrapping)
        let mut j = 0;
        while j < 3 {
            if j < N {
                let p = (pos0 + la0 + j) & LZ_DICT_SIZE_MASK;
                assert!(d.dict.b.dict[p] == inb[j], "OBL:fasttail.input_copied_into_the_window_at_its_stream_position [C01 C02]");
                if p < MAX_MATCH_LEN - 1 { assert!(d.dict.b.dict[LZ_DICT_SIZE + p] == inb[j], "OBL:fasttail.window_start_is_mirrored_behind_the_window_end [C01 C02]"); }
            }
            j += 1;
        }
        // all literals, in order
        assert!(d.lz.code_position == 1 + total && d.lz.num_flags_left as usize == 8 - total, "OBL:fasttail.token_buffer_cursors [C02]");
        let mut i = 0;
        while i < 6 {
            if i < total {
                let want = if i < la0 { pre[i] } else { inb[i - la0] };
                assert!(d.lz.codes[1 + i] == want, "OBL:fasttail.tail_bytes_are_emitted_as_literals_in_order [C01 C02]");
            }
            i += 1;
        }
    }
    #[kani::proof]
    #[kani::unwind(8)]
    #[kani::stub(flush_block, model_flush_block_noop)]
    fn k_fast_tail() {
        fast_tail_body::<1>(0, 1000);
        fast_tail_body::<2>(1, 1000);
        fast_tail_body::<0>(3, 1000);
        fast_tail_body::<3>(0, 1000);
    }
    /// the same tail path where the new bytes land in the mirrored start of the window (window index 5, a chunk
    /// shorter than the index) and where they straddle the window's end (index 32767, 0)
    #[kani::proof]
    #[kani::unwind(8)]
    #[kani::stub(flush_block, model_flush_block_noop)]
    fn k_fast_tail_window_wrap() {
        fast_tail_body::<3>(0, 32768 + 5);
        fast_tail_body::<2>(1, 2 * 32768 - 2);
    }

    // ------------------------------------------------------------------
    // K-fastcap : the real compress_fast on a CONCRETE 4-byte repeat at a concrete distance, with symbolic window
    // bits, flags, dictionary size and flush mode: a match may be emitted only if the distance is within both the
    // available history and the window declared for window_bits_max (C11), and if it is within both it IS used (C10
    // "redundancy is exploited"). Concrete data keeps every hash/window index concrete.
    // ------------------------------------------------------------------
    /// <[T]>::copy_from_slice contract model: element-wise copy (keeps CBMC's constant propagation, which the
    /// memcpy intrinsic defeats); panics on length mismatch like the real one
    fn model_copy_from_slice<T: Copy>(dst: &mut [T], src: &[T]) {
        assert!(dst.len() == src.len(), "OBL:fastcap.copy_from_slice_pre_equal_lengths [C05]");
        let mut i = 0;
        while i < src.len() { dst[i] = src[i]; i += 1; }
    }
    const FASTCAP_CONCRETE_SIZE: bool = false;
    /// element-wise re-statements of DictOxide::read_unaligned_u32/u64 (the real ones go through slice -> array
    /// conversions that cost CBMC seconds per call on the 33 KiB window and defeat constant propagation);
    /// k_read_unaligned_models_equal_real checks them against the real functions
    fn model_read_u32_exact(this: &DictOxide, pos: usize) -> u32 {
        let p = pos & LZ_DICT_SIZE_MASK;
        (this.b.dict[p] as u32) | (this.b.dict[p + 1] as u32) << 8 | (this.b.dict[p + 2] as u32) << 16 | (this.b.dict[p + 3] as u32) << 24
    }
    fn model_read_u64_exact(this: &DictOxide, pos: usize) -> u64 {
        let p = pos & LZ_DICT_SIZE_MASK;
        let mut v = 0u64;
        let mut k = 0;
        while k < 8 { v |= (this.b.dict[p + k] as u64) << (8 * k); k += 1; }
        v
    }
    #[kani::proof]
    #[kani::unwind(10)]
    fn k_read_unaligned_models_equal_real() {
        // concrete positions (a symbolic one is a symbolic index into the 33 KiB window: memory-killed), symbolic bytes
        let mut d = DictOxide::new(0);
        let positions = [0usize, 5002, 4992, 32760, 32767, 32768 + 17, 65536 + 5000];
        let mut j = 0;
        while j < 7 {
            let pos = positions[j];
            let p = pos & LZ_DICT_SIZE_MASK;
            let bytes: [u8; 8] = kani::any();
            let mut k = 0;
            while k < 8 { d.b.dict[p + k] = bytes[k]; k += 1; }
            assert!(d.read_unaligned_u32(pos) == model_read_u32_exact(&d, pos), "OBL:fastcap.read_u32_model_equals_real [C10]");
            assert!(d.read_unaligned_u64(pos) == model_read_u64_exact(&d, pos), "OBL:fastcap.read_u64_model_equals_real [C10]");
            assert!(model_read_u32_exact(&d, pos) == u32::from_le_bytes([bytes[0], bytes[1], bytes[2], bytes[3]]), "OBL:fastcap.read_u32_is_little_endian_window_bytes [C10]");
            j += 1;
        }
    }
    fn fast_cap_body(dist: usize) {
        let mut d = any_compressor!();
        concrete_window!(d.dict);
        kani::assume(d.params.flags & TDEFL_FORCE_ALL_RAW_BLOCKS == 0);
        let src: usize = 1000;
        let pos0: usize = src + dist;
        let pat = [b'A', b'B', b'C', b'D'];
        let mut k = 0; while k < 4 { d.dict.b.dict[src + k] = pat[k]; k += 1; }
        d.dict.b.dict[src + 4] = b'x'; // the earlier occurrence continues differently
        let tri: u32 = (pat[0] as u32) | (pat[1] as u32) << 8 | (pat[2] as u32) << 16;
        let hash = (tri ^ (tri >> (24 - (LZ_HASH_BITS - 8)))) & LEVEL1_HASH_SIZE_MASK;
        d.dict.b.hash[hash as usize] = src as u16;
        d.dict.lookahead_pos = pos0;
        d.dict.lookahead_size = 0;
        let size0: usize = if FASTCAP_CONCRETE_SIZE { LZ_DICT_SIZE } else { let s: usize = kani::any(); kani::assume(s <= LZ_DICT_SIZE); s };
        d.dict.size = size0;
        d.params.flush = TDEFLFlush::Sync;
        d.params.src_pos = 0;
        d.lz.code_position = LZ_CODE_BUF_SIZE - 8; // tight after the first token (1 or 3 code bytes): forces flush_block + early return
        let wbm = d.params.window_bits_max;
        let mut outb = [0u8; 8];
        FS_N.store(0, RLX);
        let ok;
        {
            let mut cb = CallbackOxide::new_callback_buf(&pat[..], &mut outb[..]);
            ok = compress_fast(&mut d, &mut cb);
        }
        let cap = 1usize << core::cmp::max(wbm, 8);
        let nlog = FS_N.load(RLX);
        let matched = nlog == 3;
        if matched {
            let len = FS_LOG[0].load(RLX) as usize + 3;
            let got = (FS_LOG[1].load(RLX) as usize | (FS_LOG[2].load(RLX) as usize) << 8) + 1;
            assert!(got == dist && len == 4, "OBL:fastcap.match_is_the_planted_repeat [C01 C10]");
            assert!(dist <= size0, "OBL:fastcap.match_never_reaches_before_start_of_data [C10]");
            assert!(dist <= cap, "OBL:fastcap.match_distance_within_the_window_declared_for_window_bits [C11]");
        } else {
            assert!(dist > size0 || dist > cap, "OBL:fastcap.repeat_within_history_and_window_is_exploited [C10]");
        }
        kani::cover!(matched, "COV:fastcap.match_emitted");
        kani::cover!(!matched && dist <= size0, "COV:fastcap.rejected_for_the_window_only");
    }
    #[kani::proof]
    #[kani::unwind(34)]
    #[kani::stub(LZOxide::write_code, model_write_code)]
    #[kani::stub(flush_block, model_flush_block_pending)]
    #[kani::stub(<[u8]>::copy_from_slice, model_copy_from_slice)]
    fn k_fast_cap_300() { fast_cap_body(300); }
    #[kani::proof]
    #[kani::unwind(34)]
    #[kani::stub(LZOxide::write_code, model_write_code)]
    #[kani::stub(flush_block, model_flush_block_pending)]
    #[kani::stub(<[u8]>::copy_from_slice, model_copy_from_slice)]
    fn k_fast_cap_5000() { fast_cap_body(5000); }

    // ------------------------------------------------------------------
    // K-normal-early : the real compress_normal up to its FIRST token decision, with the token buffer "tight" so that
    // flush_block is called right after it and reports pending output: the early-return path. The lazy-match state
    // carried to the next call (saved_lit / saved_match_dist / saved_match_len) must describe exactly the byte
    // that was skipped. Positions and input concrete (window/hash indices stay concrete); flags, window bits,
    // dictionary size, matcher result and flush_block's return value symbolic.
    // ------------------------------------------------------------------
    /// concrete nonzero results (a symbolic one lets symbolic execution walk on past the early return with symbolic
    /// window positions): pending output (5) -- the error variant (-1) takes the same return statement
    fn model_flush_block_pending(d: &mut CompressorOxide, callback: &mut CallbackOxide, flush: TDEFLFlush) -> Result<i32> {
        Ok(5)
    }
    #[kani::proof]
    #[kani::unwind(8)]
    #[kani::stub(DictOxide::find_match, model_find_match)]
    #[kani::stub(record_match, model_record_match)]
    #[kani::stub(record_literal, model_record_literal)]
    #[kani::stub(flush_block, model_flush_block_pending)]
    fn k_normal_early_return_keeps_lazy_state() {
        let mut d = any_compressor!();
        let flags = d.params.flags;
        kani::assume(flags & TDEFL_FORCE_ALL_RAW_BLOCKS == 0 && flags & TDEFL_RLE_MATCHES == 0);
        NS_FLAGS.store(flags, RLX);
        NS_RECORDED.store(0, RLX); NS_TOKENS.store(0, RLX);
        NS_FM_POS[0].store(usize::MAX, RLX); NS_FM_POS[1].store(usize::MAX, RLX);
        NS_CAP.store(1usize << core::cmp::max(d.params.window_bits_max, 8), RLX);
        let pos0: usize = 40000;
        let size0: usize = kani::any();
        kani::assume(size0 <= LZ_DICT_SIZE - 3);
        d.dict.lookahead_size = 0;
        d.dict.lookahead_pos = pos0;
        d.dict.size = size0;
        d.params.saved_match_len = 0;
        d.params.saved_match_dist = kani::any();
        d.params.saved_lit = kani::any();
        NS_SAVED_VALID.store(0, RLX);
        NS_BASE.store(pos0, RLX);
        NS_SIZE_AT_BASE.store(size0, RLX);
        d.params.flush = TDEFLFlush::Sync;
        d.params.src_pos = 0;
        d.lz.code_position = LZ_CODE_BUF_SIZE - 7; // tight: the next token forces a block flush
        let inb = [0x11u8, 0x22, 0x33];
        let mut outb = [0u8; 8];
        let ok;
        {
            let mut cb = CallbackOxide::new_callback_buf(&inb[..], &mut outb[..]);
            ok = compress_normal(&mut d, &mut cb);
        }
        let moved = d.dict.lookahead_pos - pos0;
        let pend = (d.params.saved_match_len != 0) as usize;
        assert!(moved >= 1 && moved <= 3 && d.dict.lookahead_size == 3 - moved, "OBL:normalearly.one_step_then_return [C02]");
        assert!(d.params.src_pos == 3, "OBL:normalearly.src_pos_written_back [C02]");
        assert!(moved == NS_RECORDED.load(RLX) + pend, "OBL:normalearly.every_skipped_byte_is_a_token_or_the_pending_lazy_match [C01 C02 C10]");
        if pend == 1 {
            assert!(d.params.saved_lit == inb[0], "OBL:normalearly.saved_literal_is_the_skipped_byte [C02 C01 C10]");
            assert!(NS_FM_POS[0].load(RLX) == pos0 && d.params.saved_match_dist == NS_FM_DIST[0].load(RLX) && d.params.saved_match_len == NS_FM_LEN[0].load(RLX),
                "OBL:normalearly.saved_match_is_the_one_found_at_the_skipped_position [C02 C01]");
        }
        kani::cover!(pend == 1, "COV:normalearly.lazy_match_pending");
        kani::cover!(pend == 0 && NS_RECORDED.load(RLX) == 3, "COV:normalearly.match_recorded");
    }

    /// RLE mode, first token decision (the RLE branch bypasses find_match, so nothing else bounds its distance):
    /// a run continuing the byte before the current position may be coded as a distance-1 match only when that
    /// byte is part of the history (dict.size != 0 -- after a Full flush it is not); the recorded run must really
    /// be a run of that byte. Positions concrete, window content / dictionary size / flags symbolic.
    #[kani::proof]
    #[kani::unwind(8)]
    #[kani::stub(DictOxide::find_match, model_find_match)]
    #[kani::stub(record_match, model_record_match)]
    #[kani::stub(record_literal, model_record_literal)]
    #[kani::stub(flush_block, model_flush_block_pending)]
    fn k_normal_rle_first_token() {
        let mut d = any_compressor!();
        let flags = d.params.flags;
        kani::assume(flags & TDEFL_FORCE_ALL_RAW_BLOCKS == 0 && flags & TDEFL_RLE_MATCHES != 0);
        NS_FLAGS.store(flags, RLX);
        NS_RECORDED.store(0, RLX); NS_TOKENS.store(0, RLX);
        NS_FM_POS[0].store(usize::MAX, RLX); NS_FM_POS[1].store(usize::MAX, RLX);
        NS_CAP.store(1usize << core::cmp::max(d.params.window_bits_max, 8), RLX);
        let pos0: usize = 40000;
        let size0: usize = kani::any();
        kani::assume(size0 <= LZ_DICT_SIZE - 3);
        let prev: u8 = kani::any();
        d.dict.b.dict[(pos0 - 1) & LZ_DICT_SIZE_MASK] = prev;
        d.dict.lookahead_size = 0;
        d.dict.lookahead_pos = pos0;
        d.dict.size = size0;
        d.params.saved_match_len = 0;
        d.params.saved_match_dist = kani::any();
        d.params.saved_lit = kani::any();
        NS_SAVED_VALID.store(0, RLX);
        NS_BASE.store(pos0, RLX);
        NS_SIZE_AT_BASE.store(size0, RLX);
        d.params.flush = TDEFLFlush::Sync;
        d.params.src_pos = 0;
        d.lz.code_position = LZ_CODE_BUF_SIZE - 7; // tight: the next token forces a block flush
        let inb: [u8; 3] = kani::any();
        let mut outb = [0u8; 8];
        let ok;
        {
            let mut cb = CallbackOxide::new_callback_buf(&inb[..], &mut outb[..]);
            ok = compress_normal(&mut d, &mut cb);
        }
        let moved = d.dict.lookahead_pos - pos0;
        let run = inb[0] == prev && inb[1] == prev && inb[2] == prev;
        assert!(NS_FM_POS[0].load(RLX) == usize::MAX, "OBL:normalrle.rle_mode_never_consults_the_hash_chains [C10]");
        assert!(d.params.saved_match_len == 0, "OBL:normalrle.rle_mode_never_defers_a_match [C02 C10]");
        assert!(moved == NS_RECORDED.load(RLX) && NS_TOKENS.load(RLX) == 1, "OBL:normalrle.one_token_then_return [C02]");
        if moved == 3 {
            assert!(run, "OBL:normalrle.recorded_run_repeats_the_previous_byte [C01 C10]");
            assert!(size0 != 0, "OBL:normalrle.no_run_across_the_start_of_history [C10 C12]");
        } else {
            assert!(moved == 1, "OBL:normalrle.otherwise_one_literal [C02]");
            assert!(!run || size0 == 0 || flags & TDEFL_FILTER_MATCHES != 0, "OBL:normalrle.available_run_is_exploited [C10]");
        }
        kani::cover!(moved == 3, "COV:normalrle.run_recorded");
        kani::cover!(moved == 1 && run && size0 == 0, "COV:normalrle.run_refused_after_history_reset");
    }

    // ------------------------------------------------------------------
    // K-findmatch : the real DictOxide::find_match walking a concrete hash chain over concrete window bytes
    //   position 70536 (window index 5000) "abcdefghij";  chain: 4990 (distance 10, "abcde" then different: common
    //   length 5) -> 4700 (distance 300, "abcdefg": common length 7) -> an entry exactly 65536 bytes old (u16 position
    //   aliasing the current one: distance 0) -- with probe budget, distance limit, length limit and the incoming
    //   match symbolic. Contract (the one model_find_match hands to compress_normal): the result is the incoming
    //   pair or a strictly longer match that is REAL data at a distance in 1..=max_dist.
    // ------------------------------------------------------------------
    #[kani::proof]
    #[kani::unwind(34)]
    fn k_find_match_chain() {
        const FM_CASES: usize = 8;
        let mut d = DictOxide::new(0);
        concrete_window!(d);
        const L: usize = 65536 + 5000;
        let cur = *b"abcdefghij";
        let c10 = *b"abcdeXYZWV";
        let c300 = *b"abcdefgQRS";
        let mut k = 0;
        while k < 10 { d.b.dict[5000 + k] = cur[k]; d.b.dict[4990 + k] = c10[k]; d.b.dict[4700 + k] = c300[k]; k += 1; }
        // bytes 5000..5010 were just overwritten by `cur` for k with 4990+k >= 5000: none (4990+9 = 4999)
        d.b.next[5000] = 4990 + 65536usize as u16;
        d.b.next[4990] = 4700;
        d.b.next[4700] = (L & 0xFFFF) as u16; // 65536 bytes old: aliases the current position
        // incoming length and length limit range over concrete values (a symbolic one becomes a symbolic index into
        // the 33 KiB window at `pos + match_len - 1`: memory-killed at 12 GB)
        let lens = [0u32, 3, 5, 6, 0, 3, 0, 3];
        let mmls = [258u32, 258, 258, 258, 6, 6, 4, 4];
        let mut i = 0;
        while i < FM_CASES {
            let len_in = lens[i];
            let probes: u32 = kani::any();
            kani::assume(probes >= 1 && probes <= 4);
            d.max_probes = [probes, probes];
            let max_dist: usize = kani::any();
            kani::assume(max_dist <= LZ_DICT_SIZE);
            let mml: u32 = mmls[i];
            let dist_in: u32 = kani::any();
            let (rd, rl) = d.find_match(L, max_dist, mml, dist_in, len_in);
            let base = core::cmp::max(len_in, 1);
            if rd == dist_in && rl == base {
                // nothing better found: allowed (the search is a heuristic)
            } else {
                assert!(rl > base, "OBL:findmatch.result_is_the_incoming_pair_or_strictly_longer [C10]");
                assert!(rd >= 1, "OBL:findmatch.never_a_zero_distance_even_when_a_chain_entry_is_65536_bytes_old [C01 C02 C10]");
                assert!(rd as usize <= max_dist, "OBL:findmatch.distance_within_the_callers_limit [C10 C11]");
                assert!(rl <= core::cmp::min(mml, 258), "OBL:findmatch.length_within_the_callers_limit [C01 C10]");
                assert!((rd == 10 && rl <= 5) || (rd == 300 && rl <= 7), "OBL:findmatch.reported_match_is_real_window_data [C01 C10]");
            }
            kani::cover!(rd == 10 && rl == 5 && dist_in != 10, "COV:findmatch.found_distance_10");
            kani::cover!(rd == 300 && rl == 7 && dist_in != 300, "COV:findmatch.found_distance_300");
            i += 1;
        }
    }

    // ------------------------------------------------------------------
    // K-stored-compress : the REAL compress() end to end at level 0 (compress_inner -> compress_stored -> flush_block
    // raw path -> flush_output_buffer), one Finish call on 0..=3 symbolic bytes from a fresh compressor with symbolic
    // format / strategy / window bits. The output must be, byte for byte, what RFC 1950/1951 prescribe for one final
    // stored block holding exactly the input: [CMF FLG] 01 LEN ~LEN data [Adler-32 big-endian]. Only the checksum
    // algorithm is behind a model (update_adler32 -> model_adler: K-adler did not finish).
    // ------------------------------------------------------------------
    #[kani::proof]
    #[kani::unwind(290)]
    #[kani::stub(update_adler32, model_adler)]
    fn k_stored_compress_end_to_end_zlib3() {
        // configuration and length concrete: a symbolic flag word makes `flags & FORCE_ALL_RAW_BLOCKS` a symbolic branch
        // and drags the whole Huffman block builder into the run (no result in 20 min); that level 0 always sets the
        // flag, for every configuration, is K-def-flags / K-dispatch
        stored_e2e_body(DataFormat::Zlib, CompressionStrategy::Default, 15, 3);
    }
    #[kani::proof]
    #[kani::unwind(290)]
    #[kani::stub(update_adler32, model_adler)]
    fn k_stored_compress_end_to_end_raw1() {
        stored_e2e_body(DataFormat::Raw, CompressionStrategy::HuffmanOnly, 12, 1);
    }
    #[kani::proof]
    #[kani::unwind(290)]
    #[kani::stub(update_adler32, model_adler)]
    fn k_stored_compress_end_to_end_zlib0() {
        stored_e2e_body(DataFormat::Zlib, CompressionStrategy::Fixed, 9, 0);
    }
    fn stored_e2e_body(fmt: DataFormat, strat: CompressionStrategy, wb: u8, n: usize) {
        let mut d = CompressorOxide::with_params(fmt, 0, strat, wb);
        concrete_window!(d.dict);
        let zlib = d.params.flags & TDEFL_WRITE_ZLIB_HEADER != 0;
        let inb: [u8; 3] = kani::any();
        let mut out = [0xEEu8; 24];
        let (st, consumed, written) = compress(&mut d, &inb[..n], &mut out[..], TDEFLFlush::Finish);
        assert!(st == TDEFLStatus::Done && consumed == n, "OBL:storedc.one_finish_call_completes_the_stream [C01 C02]");
        let h = if zlib { 2 } else { 0 };
        assert!(written == h + 5 + n + if zlib { 4 } else { 0 }, "OBL:storedc.output_length_is_header_block_trailer [C01 C09 C10]");
        if zlib {
            let (cmf, flg) = (out[0], out[1]);
            assert!(cmf & 0x0F == 8 && (cmf >> 4) <= 7 && ((cmf as u32) << 8 | flg as u32) % 31 == 0 && flg & 0x20 == 0, "OBL:storedc.zlib_header_valid_per_rfc1950 [C09]");
            assert!(1usize << ((cmf >> 4) + 8) >= 1usize << core::cmp::max(wb, 8) || (cmf >> 4) == 7, "OBL:storedc.declared_window_covers_the_configured_one [C11]");
        }
        assert!(out[h] == 0x01, "OBL:storedc.single_final_stored_block_header_byte_aligned [C10]");
        assert!(out[h + 1] == n as u8 && out[h + 2] == 0 && out[h + 3] == !(n as u8) && out[h + 4] == 0xFF, "OBL:storedc.len_and_complement_per_rfc1951 [C10]");
        let k: usize = kani::any();
        kani::assume(k < 3);
        if k < n { assert!(out[h + 5 + k] == inb[k], "OBL:storedc.payload_is_the_input_verbatim [C01]"); }
        if zlib {
            let a = model_adler(1, &inb[..n]);
            let t = h + 5 + n;
            assert!(out[t] == (a >> 24) as u8 && out[t + 1] == (a >> 16) as u8 && out[t + 2] == (a >> 8) as u8 && out[t + 3] == a as u8,
                "OBL:storedc.trailer_is_the_checksum_of_exactly_the_input_big_endian [C09 C16]");
        }
        let j: usize = kani::any();
        kani::assume(j < 24);
        if j >= written { assert!(out[j] == 0xEE, "OBL:storedc.nothing_written_past_the_reported_length [C02 C08]"); }
        kani::cover!(inb[2] == 0x42 && written >= 5, "COV:storedc.ran_to_completion");
    }

    /// Level/format setters (set_compression_level[_raw] are thin wrappers of set_format_and_level): either the request is
    /// refused and nothing changes, or flags, parser mode and probe budgets change TOGETHER (the matchers read the
    /// budgets, the dispatcher and recorders read the flags: a stale half would e.g. probe under Huffman-only);
    /// the window fixed at construction -- what the header declares and the matchers cap at -- never changes.
    #[kani::proof]
    fn k_set_format_and_level() {
        let mut d = any_compressor!();
        let (f0, g0, p0, w0) = (d.params.flags, d.params.greedy_parsing, d.dict.max_probes, d.params.window_bits_max);
        let fmt = any_format();
        let level: u8 = kani::any();
        let which: u8 = kani::any();
        match which % 2 {
            0 => d.set_format_and_level(fmt, level),
            _ => { kani::assume(fmt == d.data_format() || (fmt == DataFormat::Raw) == (d.data_format() == DataFormat::Raw)); d.set_compression_level_raw(level) }
        }
        let f = d.params.flags;
        assert!(d.params.window_bits_max == w0, "OBL:setlevel.window_fixed_at_construction_is_never_changed [C11 C09]");
        assert!(d.params.greedy_parsing == (f & TDEFL_GREEDY_PARSING_FLAG != 0), "OBL:setlevel.parser_mode_follows_the_flags [C10]");
        assert!(d.dict.max_probes[0] == probes_from_flags(f)[0] && d.dict.max_probes[1] == probes_from_flags(f)[1], "OBL:setlevel.probe_budgets_follow_the_flags [C10]");
        if f != f0 {
            let lv = core::cmp::min(level, 10);
            assert!((f & TDEFL_FORCE_ALL_RAW_BLOCKS != 0) == (level == 0), "OBL:setlevel.level0_iff_stored_only [C01 C10]");
            assert!(f & (TDEFL_RLE_MATCHES | TDEFL_FILTER_MATCHES | TDEFL_FORCE_ALL_STATIC_BLOCKS) == 0, "OBL:setlevel.strategy_reset_to_default [C10]");
        } else {
            assert!(d.params.greedy_parsing == g0 && d.dict.max_probes[0] == p0[0] && d.dict.max_probes[1] == p0[1], "OBL:setlevel.refused_request_changes_nothing [C10 C18]");
        }
        kani::cover!(f != f0, "COV:setlevel.accepted");
        kani::cover!(f == f0 && which % 2 == 0 && level >= 2, "COV:setlevel.refused_or_same");
    }

    // ------------------------------------------------------------------
    // K-sink : the callback output route (compress_to_output). (1) CallbackOxide::flush_output with a callback sink
    // hands the callback exactly the bytes produced, once; a refusal is latched as PutBufFailed. (2) compress_to_output
    // over the same engine / flush_block models as K-dispatch: counts, latching, Finish stickiness, no spurious Done.
    // ------------------------------------------------------------------
    #[kani::proof]
    fn k_callback_sink_flush_output() {
        let mut d = any_compressor!();
        let pos: usize = kani::any();
        kani::assume(pos <= OUT_BUF_SIZE - 16);
        let fr: u32 = kani::any();
        d.params.flush_remaining = fr;
        let st0 = any_status();
        d.params.prev_return_status = st0;
        let accept: bool = kani::any();
        let calls = core::cell::Cell::new(0usize);
        let seen_ptr = core::cell::Cell::new(0usize);
        let seen_len = core::cell::Cell::new(usize::MAX);
        let base = d.params.local_buf.b.as_ptr() as usize;
        let inb = [0u8; 2];
        let r;
        {
            let mut f = |b: &[u8]| -> bool { calls.set(calls.get() + 1); seen_ptr.set(b.as_ptr() as usize); seen_len.set(b.len()); accept };
            let mut cb = CallbackOxide::new_callback_func(&inb[..], CallbackFunc { put_buf_func: &mut f });
            let saved = SavedOutputBufferOxide { pos, bit_buffer: kani::any(), bits_in: kani::any(), local: true };
            r = cb.flush_output(saved, &mut d.params);
        }
        if pos == 0 {
            assert!(calls.get() == 0 && r == fr as i32 && d.params.prev_return_status == st0, "OBL:sink.nothing_produced_nothing_delivered [C02]");
        } else {
            assert!(calls.get() == 1 && seen_ptr.get() == base && seen_len.get() == pos, "OBL:sink.callback_receives_exactly_the_bytes_produced_once [C02 C01]");
            if accept {
                assert!(r == fr as i32 && d.params.prev_return_status == st0, "OBL:sink.accepted_output_leaves_the_status_alone [C02 C14]");
            } else {
                assert!(r < 0 && d.params.prev_return_status == TDEFLStatus::PutBufFailed, "OBL:sink.refusal_is_latched_as_put_buf_failed [C02 C14]");
            }
        }
        kani::cover!(pos > 0 && !accept, "COV:sink.refused");
    }

    #[kani::proof]
    #[kani::stub(compress_stored, model_stored)]
    #[kani::stub(compress_fast, model_fast)]
    #[kani::stub(compress_normal, model_normal)]
    #[kani::stub(flush_block, model_flush_block)]
    #[kani::stub(update_adler32, model_adler)]
    #[kani::stub(<[u16]>::fill, model_fill)]
    fn k_compress_to_output_protocol() {
        let mut d = any_compressor!();
        let flush = dispatch_havoc(&mut d);
        kani::assume(d.params.flush_remaining == 0); // a callback sink never leaves output pending (k_callback_sink_flush_output: returns flush_remaining unchanged)
        let inb: [u8; 4] = kani::any();
        let inl: usize = kani::any();
        kani::assume(inl <= 4);
        let prev_status = d.params.prev_return_status;
        let prev_flush = d.params.flush;
        let finished0 = d.params.finished;
        let (st, ipos) = compress_to_output(&mut d, &inb[..inl], flush, |_b: &[u8]| -> bool { true });
        let route = d.params.saved_lit;
        let fb = d.params.saved_match_len;
        assert!(ipos <= inl, "OBL:sink.consumed_le_offered [C02 C14]");
        let bad = prev_status != TDEFLStatus::Okay || (prev_flush == TDEFLFlush::Finish && flush != TDEFLFlush::Finish);
        if bad {
            assert!(st == TDEFLStatus::BadParam && ipos == 0 && route == ROUTE_NONE && fb == 0 && d.params.prev_return_status == TDEFLStatus::BadParam,
                "OBL:sink.badparam_on_latched_status_or_nonfinish_after_finish [C02 C14]");
            return;
        }
        assert!(d.params.prev_return_status == st, "OBL:sink.status_latched [C14]");
        if finished0 {
            assert!(route == ROUTE_NONE && fb == 0 && ipos == 0 && st == TDEFLStatus::Done, "OBL:sink.finished_stream_stays_done_and_consumes_nothing [C14 C02]");
            return;
        }
        assert!(route != ROUTE_NONE, "OBL:sink.engine_called [C02]");
        if st == TDEFLStatus::PutBufFailed { return; }
        assert!(ipos == d.params.src_pos, "OBL:sink.in_pos_is_src_pos [C02]");
        if fb != 0 {
            assert!(fb == 1 + flush as u32 && flush != TDEFLFlush::None && ipos == inl, "OBL:sink.final_flush_block_only_with_the_requested_mode_after_all_input [C12 C02]");
        }
        if st == TDEFLStatus::Done {
            assert!(flush == TDEFLFlush::Finish && d.params.finished, "OBL:sink.done_only_after_finish [C14 C02]");
        }
        kani::cover!(st == TDEFLStatus::Done, "COV:sink.done");
        kani::cover!(fb != 0 && st == TDEFLStatus::Okay, "COV:sink.flush_block_okay");
    }

    /// the real compress_fast where the only candidate for a match lies 32767 bytes back: that window slot has just been
    /// overwritten by the lookahead itself (the window holds history + lookahead in 32 KiB), so it is NOT history any
    /// more -- dict.size must already be clamped to 32 KiB minus the lookahead when candidates are examined.
    #[kani::proof]
    #[kani::unwind(34)]
    #[kani::stub(LZOxide::write_code, model_write_code)]
    #[kani::stub(flush_block, model_flush_block_pending)]
    #[kani::stub(<[u8]>::copy_from_slice, model_copy_from_slice)]
    fn k_fast_lookahead_overlap() {
        let mut d = any_compressor!();
        concrete_window!(d.dict);
        kani::assume(d.params.flags & TDEFL_FORCE_ALL_RAW_BLOCKS == 0);
        let pos0: usize = 40000;
        let p = pos0 & LZ_DICT_SIZE_MASK;
        let cand: usize = pos0 - 32767;              // stream position whose window slot is p + 1
        d.dict.b.dict[p + 4] = b'x';
        let pat = [b'A', b'A', b'A', b'A'];
        let tri: u32 = 0x41_4141;
        let hash = (tri ^ (tri >> (24 - (LZ_HASH_BITS - 8)))) & LEVEL1_HASH_SIZE_MASK;
        d.dict.b.hash[hash as usize] = cand as u16;
        d.dict.lookahead_pos = pos0;
        d.dict.lookahead_size = 0;
        let size0: usize = kani::any();
        kani::assume(size0 <= LZ_DICT_SIZE);
        d.dict.size = size0;
        d.params.flush = TDEFLFlush::Sync;
        d.params.src_pos = 0;
        d.lz.code_position = LZ_CODE_BUF_SIZE - 8;
        let mut outb = [0u8; 8];
        FS_N.store(0, RLX);
        {
            let mut cb = CallbackOxide::new_callback_buf(&pat[..], &mut outb[..]);
            let _ = compress_fast(&mut d, &mut cb);
        }
        let matched = FS_N.load(RLX) == 3;
        assert!(!matched, "OBL:fastcap.no_match_into_window_slots_already_overwritten_by_the_lookahead [C01 C10]");
        assert!(d.dict.size <= LZ_DICT_SIZE - d.dict.lookahead_size, "OBL:fastcap.history_plus_lookahead_fit_the_window [C01 C10]");
        kani::cover!(size0 == LZ_DICT_SIZE && d.params.window_bits_max == 15, "COV:fastcap.full_history_full_window");
    }

    /// compress_normal's input copy at the window end with no usable history (the byte-at-a-time path: stream start and
    /// right after a Full flush): bytes land at their stream position modulo the window and in the mirror, and the first
    /// token is decided on THOSE bytes
    #[kani::proof]
    #[kani::unwind(8)]
    #[kani::stub(DictOxide::find_match, model_find_match)]
    #[kani::stub(record_match, model_record_match)]
    #[kani::stub(record_literal, model_record_literal_logged)]
    #[kani::stub(flush_block, model_flush_block_pending)]
    fn k_normal_window_wrap_without_history() {
        let mut d = any_compressor!();
        concrete_window!(d.dict);
        let flags = d.params.flags;
        kani::assume(flags & TDEFL_FORCE_ALL_RAW_BLOCKS == 0);
        NS_FLAGS.store(flags, RLX);
        NS_RECORDED.store(0, RLX); NS_TOKENS.store(0, RLX); NS_LAST_LIT.store(usize::MAX, RLX);
        NS_FM_POS[0].store(usize::MAX, RLX); NS_FM_POS[1].store(usize::MAX, RLX);
        NS_CAP.store(1usize << core::cmp::max(d.params.window_bits_max, 8), RLX);
        let pos0: usize = 2 * LZ_DICT_SIZE - 1; // window index 32767: the next byte wraps to index 0
        d.dict.lookahead_size = 0;
        d.dict.lookahead_pos = pos0;
        d.dict.size = 0;                         // history was just cut (Full flush)
        // stale bytes from 32 KiB earlier
        d.dict.b.dict[0] = 0xEE; d.dict.b.dict[1] = 0xEE; d.dict.b.dict[LZ_DICT_SIZE - 1] = 0xEE;
        d.params.saved_match_len = 0;
        NS_SAVED_VALID.store(0, RLX);
        NS_BASE.store(pos0, RLX);
        NS_SIZE_AT_BASE.store(0, RLX);
        d.params.flush = TDEFLFlush::Sync;
        d.params.src_pos = 0;
        d.lz.code_position = LZ_CODE_BUF_SIZE - 7;
        let inb: [u8; 3] = kani::any();
        kani::assume(inb[0] != 0xEE && inb[1] != 0xEE && inb[2] != 0xEE);
        let mut outb = [0u8; 8];
        {
            let mut cb = CallbackOxide::new_callback_buf(&inb[..], &mut outb[..]);
            let _ = compress_normal(&mut d, &mut cb);
        }
        assert!(d.dict.b.dict[LZ_DICT_SIZE - 1] == inb[0] && d.dict.b.dict[0] == inb[1] && d.dict.b.dict[1] == inb[2], "OBL:normalwrap.input_lands_at_its_stream_position_modulo_the_window [C01 C02 C12]");
        assert!(d.dict.b.dict[LZ_DICT_SIZE] == inb[1] && d.dict.b.dict[LZ_DICT_SIZE + 1] == inb[2], "OBL:normalwrap.window_start_is_mirrored_behind_the_window_end [C01 C12]");
        if NS_LAST_LIT.load(RLX) != usize::MAX && NS_TOKENS.load(RLX) == 1 {
            assert!(NS_LAST_LIT.load(RLX) == inb[0] as usize, "OBL:normalwrap.first_literal_is_the_first_new_byte [C01 C12]");
        }
        kani::cover!(NS_TOKENS.load(RLX) == 1, "COV:normalwrap.one_token");
    }

    //@PLAYBACK@
}
