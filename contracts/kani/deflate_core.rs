#[cfg(kani)]
#[allow(unused_imports, dead_code, unused_variables, unused_mut, clippy::all)]
mod verif_deflate_core {
    use super::*;
    use crate::deflate::zlib::header_from_flags;

    // ------------------------------------------------------------------
    // helpers
    // ------------------------------------------------------------------
    fn any_strategy() -> CompressionStrategy {
        let s: u8 = kani::any();
        kani::assume(s < 5);
        match s {
            0 => CompressionStrategy::Default,
            1 => CompressionStrategy::Filtered,
            2 => CompressionStrategy::HuffmanOnly,
            3 => CompressionStrategy::RLE,
            _ => CompressionStrategy::Fixed,
        }
    }
    fn any_format() -> DataFormat {
        let s: u8 = kani::any();
        kani::assume(s < 3);
        match s {
            0 => DataFormat::Zlib,
            1 => DataFormat::ZLibIgnoreChecksum,
            _ => DataFormat::Raw,
        }
    }
    fn any_flush() -> TDEFLFlush {
        let s: u8 = kani::any();
        kani::assume(s < 8);
        match s {
            0 => TDEFLFlush::None,
            1 => TDEFLFlush::Partial,
            2 => TDEFLFlush::Sync,
            3 => TDEFLFlush::Full,
            4 => TDEFLFlush::Finish,
            5 => TDEFLFlush::PartialOpt,
            6 => TDEFLFlush::SyncOpt,
            _ => TDEFLFlush::NoSync,
        }
    }
    fn any_status() -> TDEFLStatus {
        let s: u8 = kani::any();
        kani::assume(s < 4);
        match s {
            0 => TDEFLStatus::BadParam,
            1 => TDEFLStatus::PutBufFailed,
            2 => TDEFLStatus::Okay,
            _ => TDEFLStatus::Done,
        }
    }

    // ------------------------------------------------------------------
    // K-def-flags : create_comp_flags_from_zip_params, limit_level_by_window_bits,
    //               window_bits_from_flags, probes_from_flags, with_params (flag part)
    // Oracle: the statement of C10/C01 (strategy -> token restrictions, level clamp).
    // ------------------------------------------------------------------
    const RFC_NUM_PROBES: [u32; 11] = [0, 1, 6, 32, 16, 32, 128, 256, 512, 768, 1500];

    #[kani::proof]
    fn k_flags_from_zip_params() {
        let level: i32 = kani::any();
        let wb: i32 = kani::any();
        let strategy: i32 = kani::any();
        let f = create_comp_flags_from_zip_params(level, wb, strategy);
        let eff = if level < 0 { 6 } else if level > 10 { 10 } else { level };
        // level clamp: values above 10 behave as 10, negative as default (6)
        assert!(f == create_comp_flags_from_zip_params(eff, wb, strategy) || level < 0, "OBL:flags.level_clamp [C01 C10]");
        if level > 10 {
            assert!(f == create_comp_flags_from_zip_params(10, wb, strategy), "OBL:flags.level_above_10_is_10 [C01 C10]");
        }
        // level 0 <=> stored-only flag
        assert!((f & TDEFL_FORCE_ALL_RAW_BLOCKS != 0) == (level == 0), "OBL:flags.level0_iff_raw [C01 C10]");
        // zlib flag <=> window_bits > 0
        assert!((f & TDEFL_WRITE_ZLIB_HEADER != 0) == (wb > 0), "OBL:flags.zlib_iff_wb_positive [C09 C10]");
        if level != 0 {
            // strategy table of C10
            assert!((f & TDEFL_FILTER_MATCHES != 0) == (strategy == 1), "OBL:flags.filtered [C10]");
            assert!((f & TDEFL_RLE_MATCHES != 0) == (strategy == 3), "OBL:flags.rle [C10 C11]");
            assert!((f & TDEFL_FORCE_ALL_STATIC_BLOCKS != 0) == (strategy == 4), "OBL:flags.fixed [C10]");
            if strategy == 2 {
                assert!(f & MAX_PROBES_MASK == 0, "OBL:flags.huffman_only_zero_probes [C10]");
            } else {
                assert!(f & MAX_PROBES_MASK == RFC_NUM_PROBES[eff as usize], "OBL:flags.probes_table [C10]");
                assert!(f & MAX_PROBES_MASK != 0, "OBL:flags.matching_enabled_at_level_ge_1 [C10]");
            }
        }
        assert!((f & TDEFL_GREEDY_PARSING_FLAG != 0) == (level <= 3), "OBL:flags.greedy [C10]");
        // no stray bits
        assert!(f & !(MAX_PROBES_MASK | TDEFL_WRITE_ZLIB_HEADER | TDEFL_GREEDY_PARSING_FLAG | TDEFL_RLE_MATCHES
            | TDEFL_FILTER_MATCHES | TDEFL_FORCE_ALL_STATIC_BLOCKS | TDEFL_FORCE_ALL_RAW_BLOCKS) == 0, "OBL:flags.no_stray_bits [C10]");
        kani::cover!(level == 0, "COV:flags.level0");
        kani::cover!(level > 10, "COV:flags.gt10");
        kani::cover!(level != 0 && strategy == 3, "COV:flags.rle");
    }

    #[kani::proof]
    fn k_limit_level_by_window_bits() {
        let wb: u8 = kani::any();
        let level: i32 = kani::any();
        let strat = any_strategy();
        let (l2, s2) = limit_level_by_window_bits(wb, level, strat);
        if wb >= 15 {
            assert!(l2 == level && s2 == strat, "OBL:limit.identity_at_15 [C11 C10]");
        } else if wb >= 12 {
            assert!(l2 == core::cmp::min(level, 1) && s2 == strat, "OBL:limit.level_le_1_for_12_14 [C11]");
        } else if level != 0 && strat != CompressionStrategy::HuffmanOnly {
            assert!(l2 == 1 && s2 == CompressionStrategy::RLE, "OBL:limit.rle_below_12 [C11]");
        } else {
            assert!(l2 == level && s2 == strat, "OBL:limit.noop_for_stored_or_huffonly [C11]");
        }
        kani::cover!(wb < 12 && level != 0, "COV:limit.small");
        kani::cover!(wb >= 12 && wb < 15, "COV:limit.mid");
    }

    #[kani::proof]
    fn k_probes_from_flags() {
        let flags: u32 = kani::any();
        let p = probes_from_flags(flags);
        let n = flags & 0xFFF;
        assert!(p[0] == 1 + (n + 2) / 3 && p[1] == 1 + ((n >> 2) + 2) / 3, "OBL:probes.formula [C10]");
        // probes == 0 (HuffmanOnly) => first find_match iteration returns without searching
        if n == 0 { assert!(p[0] == 1 && p[1] == 1, "OBL:probes.zero_means_no_search [C10]"); }
        kani::cover!(n == 0, "COV:probes.zero");
    }

    /// with_params: flag computation and stored window bits; every constructor establishes window_bits_max <= 15.
    #[kani::proof]
    fn k_with_params_flags() {
        let fmt = any_format();
        let level: u8 = kani::any();
        let strat = any_strategy();
        let wb: u8 = kani::any();
        let d = CompressorOxide::with_params(fmt, level, strat, wb);
        let wbc = core::cmp::min(wb, 15);
        let lv = core::cmp::min(level, 10) as i32;
        assert!(d.params.window_bits_max == wbc, "OBL:with_params.window_bits_clamped [C11 C09]");
        assert!(d.params.window_bits_max <= 15, "OBL:with_params.window_bits_le_15 [C09 C11]");
        let (l2, s2) = limit_level_by_window_bits(wbc, lv, strat);
        let want = create_comp_flags_from_zip_params(l2, if fmt == DataFormat::Raw { -(wbc as i32) } else { wbc as i32 }, s2 as i32);
        assert!(d.params.flags == want, "OBL:with_params.flags [C10 C11]");
        assert!(d.params.greedy_parsing == (want & TDEFL_GREEDY_PARSING_FLAG != 0), "OBL:with_params.greedy [C10]");
        assert!(d.dict.max_probes[0] == probes_from_flags(want)[0] && d.dict.max_probes[1] == probes_from_flags(want)[1], "OBL:with_params.probes [C10]");
        // level byte: everything above 10 behaves as 10
        if level > 10 {
            let d10 = CompressorOxide::with_params(fmt, 10, strat, wb);
            assert!(d10.params.flags == d.params.flags, "OBL:with_params.level_gt_10_is_10 [C01]");
        }
        // zlib framing iff a zlib format was asked and wb > 0
        assert!((d.params.flags & TDEFL_WRITE_ZLIB_HEADER != 0) == (fmt != DataFormat::Raw && wbc > 0), "OBL:with_params.zlib_flag [C09]");
        kani::cover!(level > 10, "COV:with_params.gt10");
        kani::cover!(wb > 15, "COV:with_params.wb_gt15");
    }

    // ------------------------------------------------------------------
    // K-dispatch : the real compress() / compress_inner with the three engines,
    // flush_block and update_adler32 replaced by recording contract models.
    // ------------------------------------------------------------------
    const ROUTE_NONE: u8 = 0;
    const ROUTE_STORED: u8 = 1;
    const ROUTE_FAST: u8 = 2;
    const ROUTE_NORMAL: u8 = 3;

    /// Engine contract model (M-engine): consumes some prefix of the input, may leave pending output,
    /// may fail. Records the route in `saved_lit` and the flush_block-call marker bit untouched.
    fn engine_model(d: &mut CompressorOxide, callback: &mut CallbackOxide, route: u8) -> bool {
        // each engine is entered at most once per compress() call
        assert!(d.params.saved_lit == ROUTE_NONE, "OBL:dispatch.single_engine_call [C02]");
        d.params.saved_lit = route;
        let len = callback.in_buf.map_or(0, |b| b.len());
        let sp: usize = kani::any();
        kani::assume(sp <= len);
        d.params.src_pos = sp;
        let la: usize = kani::any();
        kani::assume(la <= 4096);
        d.dict.lookahead_size = la;
        let ok: bool = kani::any();
        if !ok {
            // failure: engines set prev_return_status themselves or flush_block's callback did
            d.params.prev_return_status = TDEFLStatus::PutBufFailed;
            return false;
        }
        // an engine may return early with pending output (flush_block could not drain)
        model_pending(d, callback);
        true
    }
    fn model_pending(d: &mut CompressorOxide, callback: &mut CallbackOxide) {
        let fr: u32 = kani::any();
        let fo: u32 = kani::any();
        kani::assume(fr as usize <= OUT_BUF_SIZE && fo as usize <= OUT_BUF_SIZE && (fo + fr) as usize <= OUT_BUF_SIZE);
        d.params.flush_remaining = fr;
        d.params.flush_ofs = fo;
        if let CallbackOut::Buf(ref cb) = callback.out {
            let o: usize = kani::any();
            kani::assume(o <= cb.out_buf.len());
            // pending bytes only if the caller's buffer is full
            kani::assume(fr == 0 || o == cb.out_buf.len());
            d.params.out_buf_ofs = o;
        }
    }
    fn model_stored(d: &mut CompressorOxide, c: &mut CallbackOxide) -> bool { engine_model(d, c, ROUTE_STORED) }
    fn model_fast(d: &mut CompressorOxide, c: &mut CallbackOxide) -> bool { engine_model(d, c, ROUTE_FAST) }
    fn model_normal(d: &mut CompressorOxide, c: &mut CallbackOxide) -> bool { engine_model(d, c, ROUTE_NORMAL) }

    /// flush_block contract model: records the flush mode it was called with in saved_match_len (1 + mode),
    /// leaves nondeterministic pending output.
    fn model_flush_block(d: &mut CompressorOxide, callback: &mut CallbackOxide, flush: TDEFLFlush) -> Result<i32> {
        assert!(d.params.saved_match_len == 0, "OBL:dispatch.final_flush_block_once [C12 C02]");
        d.params.saved_match_len = 1 + flush as u32;
        d.params.block_index = d.params.block_index.wrapping_add(1);
        let r: u8 = kani::any();
        if r == 0 { return Err(Error {}); }
        if r == 1 { d.params.prev_return_status = TDEFLStatus::PutBufFailed; return Ok(-1); }
        model_pending(d, callback);
        Ok(d.params.flush_remaining as i32)
    }
    /// update_adler32 model: records the number of bytes it was given in saved_match_dist (+1).
    fn model_adler(adler: u32, data: &[u8]) -> u32 {
        adler.wrapping_add(0x9E37_79B1).wrapping_add(data.len() as u32)
    }

    /// flush_output_buffer contract model (the real function is proved against this contract in K-flushout):
    /// moves n = min(space, flush_remaining) bytes; counters move by n; Done iff finished and drained.
    fn model_flush_output(c: &mut CallbackOxide, p: &mut ParamsOxide) -> (TDEFLStatus, usize, usize) {
        let mut res = (TDEFLStatus::Okay, p.src_pos, 0);
        if let CallbackOut::Buf(ref mut cb) = c.out {
            assert!(p.out_buf_ofs <= cb.out_buf.len(), "OBL:dispatch.flushout_pre_ofs_in_range [C02 C14]");
            assert!(p.flush_ofs as usize + p.flush_remaining as usize <= OUT_BUF_SIZE, "OBL:dispatch.flushout_pre_pending_in_local_buf [C02]");
            let n = core::cmp::min(cb.out_buf.len() - p.out_buf_ofs, p.flush_remaining as usize);
            p.flush_ofs += n as u32;
            p.flush_remaining -= n as u32;
            p.out_buf_ofs += n;
            res.2 = p.out_buf_ofs;
        }
        if p.finished && p.flush_remaining == 0 {
            res.0 = TDEFLStatus::Done
        }
        res
    }

    /// Model of `<[T]>::fill` (trusted std contract: every element == v afterwards). Sound weakening used here:
    /// it writes v at index 0 only, counts the calls and records the slice lengths; the harness observes
    /// index 0 and the (count, length) record, and the std contract extends the value to the whole slice.
    static FILL_CALLS: core::sync::atomic::AtomicUsize = core::sync::atomic::AtomicUsize::new(0);
    static FILL_LEN_SUM: core::sync::atomic::AtomicUsize = core::sync::atomic::AtomicUsize::new(0);
    fn model_fill<T: Clone>(s: &mut [T], v: T) {
        FILL_LEN_SUM.fetch_add(s.len(), core::sync::atomic::Ordering::Relaxed);
        if !s.is_empty() { s[0] = v; }
        FILL_CALLS.fetch_add(1, core::sync::atomic::Ordering::Relaxed);
    }

    /// No Box / no by-value return of the compressor: moving the 64 KiB inline LZ buffer costs CBMC minutes.
    macro_rules! any_compressor {
        () => {{
            let fmt = any_format();
            let level: u8 = kani::any();
            let strat = any_strategy();
            let wb: u8 = kani::any();
            kani::assume(level <= 10 && wb >= 8 && wb <= 15);
            CompressorOxide::with_params(fmt, level, strat, wb)
        }};
    }
    fn dispatch_havoc(d: &mut CompressorOxide) -> TDEFLFlush {
        // arbitrary history: any status, any previous flush, pending output, finished flag
        d.params.prev_return_status = any_status();
        d.params.flush = any_flush();
        d.params.finished = kani::any();
        let fr: u32 = kani::any();
        let fo: u32 = kani::any();
        kani::assume((fr as usize) <= OUT_BUF_SIZE && (fo as usize) <= OUT_BUF_SIZE && (fo as usize + fr as usize) <= OUT_BUF_SIZE);
        d.params.flush_remaining = fr;
        d.params.flush_ofs = fo;
        d.params.adler32 = kani::any();
        d.params.out_buf_ofs = kani::any();
        d.params.src_pos = kani::any();
        d.params.block_index = kani::any();
        d.dict.size = kani::any();
        kani::assume(d.dict.size <= LZ_DICT_SIZE);
        d.dict.lookahead_size = kani::any();
        kani::assume(d.dict.lookahead_size <= 4096);
        d.params.saved_lit = ROUTE_NONE;
        d.params.saved_match_len = 0;
        d.params.saved_match_dist = 0;
        any_flush()
    }

    #[kani::proof]
    #[kani::stub(compress_stored, model_stored)]
    #[kani::stub(compress_fast, model_fast)]
    #[kani::stub(compress_normal, model_normal)]
    #[kani::stub(flush_block, model_flush_block)]
    #[kani::stub(update_adler32, model_adler)]
    #[kani::stub(flush_output_buffer, model_flush_output)]
    #[kani::stub(<[u16]>::fill, model_fill)]
    fn k_dispatch() {
        let mut d = any_compressor!();
        let flush = dispatch_havoc(&mut d);
        d.dict.b.hash[0] = kani::any();
        d.dict.b.next[0] = kani::any();
        let (hash0, next0, size0) = (d.dict.b.hash[0], d.dict.b.next[0], d.dict.size);
        let inb: [u8; 4] = kani::any();
        let inl: usize = kani::any();
        kani::assume(inl <= 4);
        let mut outb: [u8; 8] = kani::any();
        let outl: usize = kani::any();
        kani::assume(outl <= 8);
        let out0 = outb;

        let flags = d.params.flags;
        let prev_status = d.params.prev_return_status;
        let prev_flush = d.params.flush;
        let pending = d.params.flush_remaining;
        let pend_ofs = d.params.flush_ofs;
        let finished0 = d.params.finished;
        let adler0 = d.params.adler32;
        let la0 = d.dict.lookahead_size;

        let (st, ipos, opos) = compress(&mut d, &inb[..inl], &mut outb[..outl], flush);
        let route = d.params.saved_lit;
        let fb = d.params.saved_match_len; // 0 = flush_block not called by compress_inner, else 1+mode

        // ---- counts never exceed what was offered (C02, C14) ----
        assert!(ipos <= inl, "OBL:dispatch.consumed_le_offered [C02 C14]");
        assert!(opos <= outl, "OBL:dispatch.written_le_offered [C02 C14]");

        // ---- prologue: latched error / Finish sticky (C02 C14) ----
        let bad = prev_status != TDEFLStatus::Okay || (prev_flush == TDEFLFlush::Finish && flush != TDEFLFlush::Finish);
        if bad {
            assert!(st == TDEFLStatus::BadParam && ipos == 0 && opos == 0, "OBL:dispatch.badparam_on_latched_or_nonfinish_after_finish [C02 C14]");
            assert!(d.params.prev_return_status == TDEFLStatus::BadParam, "OBL:dispatch.badparam_latched [C14]");
            assert!(route == ROUTE_NONE && fb == 0, "OBL:dispatch.badparam_no_engine [C02 C14]");
            assert!(outb == out0, "OBL:dispatch.badparam_writes_nothing [C14]");
            return;
        }
        assert!(d.params.prev_return_status == st, "OBL:dispatch.status_latched [C14]");

        // ---- pending output or finished: only drain (C02 C14) ----
        if pending != 0 || finished0 {
            assert!(route == ROUTE_NONE && fb == 0, "OBL:dispatch.pending_short_circuits_engines [C02 C14]");
            assert!(ipos == 0, "OBL:dispatch.pending_consumes_nothing [C02]");
            let n = core::cmp::min(outl, pending as usize);
            assert!(opos == n, "OBL:dispatch.pending_drain_count [C02 C14]");
            assert!(d.params.flush_remaining == pending - n as u32 && d.params.flush_ofs == pend_ofs + n as u32, "OBL:dispatch.pending_bookkeeping [C02]");
            assert!((st == TDEFLStatus::Done) == (finished0 && pending as usize <= outl), "OBL:dispatch.done_iff_finished_and_drained [C14]");
            assert!(d.params.adler32 == adler0, "OBL:dispatch.pending_adler_untouched [C16]");
            return;
        }

        // ---- routing (C01 C10 C11) : clause taken from the property text, not from the code ----
        let raw = flags & TDEFL_FORCE_ALL_RAW_BLOCKS != 0;
        let rle = flags & TDEFL_RLE_MATCHES != 0;
        let filt = flags & TDEFL_FILTER_MATCHES != 0;
        assert!(route != ROUTE_NONE, "OBL:dispatch.engine_called [C02]");
        assert!(raw == (route == ROUTE_STORED), "OBL:dispatch.level0_iff_stored_route [C01 C10]");
        if rle { assert!(route != ROUTE_FAST, "OBL:dispatch.rle_never_fast_route [C10 C11]"); }
        if filt { assert!(route != ROUTE_FAST, "OBL:dispatch.filter_never_fast_route [C10]"); }
        if route == ROUTE_FAST {
            assert!(flags & MAX_PROBES_MASK == 1 && flags & TDEFL_GREEDY_PARSING_FLAG != 0, "OBL:dispatch.fast_only_one_probe_greedy [C10]");
        }
        if flags & MAX_PROBES_MASK == 0 { assert!(route != ROUTE_FAST, "OBL:dispatch.huffman_only_never_fast [C10]"); }

        if st == TDEFLStatus::PutBufFailed {
            return;
        }
        assert!(ipos == d.params.src_pos, "OBL:dispatch.in_pos_is_src_pos [C02]");

        // ---- running Adler-32 over exactly the consumed input (C09 C16) ----
        let want_adler = flags & (TDEFL_WRITE_ZLIB_HEADER | TDEFL_COMPUTE_ADLER32) != 0;
        if want_adler {
            assert!(d.params.adler32 == model_adler(adler0, &inb[..ipos]), "OBL:dispatch.adler_over_consumed_prefix [C09 C16]");
        } else {
            assert!(d.params.adler32 == adler0, "OBL:dispatch.adler_off_when_not_requested [C16]");
        }

        // ---- final flush_block gating (C02 C12) ----
        if fb != 0 {
            assert!(fb == 1 + flush as u32, "OBL:dispatch.flush_block_gets_requested_mode [C12]");
            assert!(flush != TDEFLFlush::None, "OBL:dispatch.no_flush_block_on_none [C12]");
            assert!(ipos == inl, "OBL:dispatch.flush_only_when_all_input_consumed [C12 C02]");
        }
        // ---- Full flush cuts history: hash chains cleared and dictionary size zero (C12) ----
        let fills = FILL_CALLS.load(core::sync::atomic::Ordering::Relaxed);
        let fill_len = FILL_LEN_SUM.load(core::sync::atomic::Ordering::Relaxed);
        if fb != 0 && flush == TDEFLFlush::Full && st != TDEFLStatus::PutBufFailed {
            assert!(d.dict.size == 0, "OBL:dispatch.full_flush_dict_size_zero [C12]");
            assert!(fills == 2 && fill_len == 2 * LZ_DICT_SIZE && d.dict.b.hash[0] == 0 && d.dict.b.next[0] == 0,
                "OBL:dispatch.full_flush_clears_hash_chains [C12]");
        } else {
            assert!(d.dict.size == size0 && fills == 0 && d.dict.b.hash[0] == hash0 && d.dict.b.next[0] == next0,
                "OBL:dispatch.no_history_cut_without_full_flush [C12]");
        }
        if d.params.finished {
            assert!(flush == TDEFLFlush::Finish && fb != 0, "OBL:dispatch.finished_only_after_finish_flush_block [C10 C14]");
        }
        if st == TDEFLStatus::Done {
            assert!(flush == TDEFLFlush::Finish && d.params.finished && d.params.flush_remaining == 0, "OBL:dispatch.done_only_after_finish_and_drained [C14 C02]");
        }
        kani::cover!(route == ROUTE_STORED, "COV:dispatch.stored");
        kani::cover!(route == ROUTE_FAST, "COV:dispatch.fast");
        kani::cover!(route == ROUTE_NORMAL, "COV:dispatch.normal");
        kani::cover!(route == ROUTE_NORMAL && rle, "COV:dispatch.normal_rle");
        kani::cover!(fb != 0, "COV:dispatch.flush_block");
        kani::cover!(fb != 0 && flush == TDEFLFlush::Full, "COV:dispatch.full_flush");
        kani::cover!(st == TDEFLStatus::Done, "COV:dispatch.done");
    }

    //@PLAYBACK@
}
