#[cfg(kani)]
#[allow(unused_imports, dead_code, unused_variables, unused_mut, clippy::all)]
mod verif_capi_tdef {
    use super::*;
    use core::sync::atomic::{AtomicUsize, AtomicI32, Ordering::Relaxed};

    static CALLS_BUF: AtomicUsize = AtomicUsize::new(0);
    static CALLS_OUT: AtomicUsize = AtomicUsize::new(0);
    static IN_PTR: AtomicUsize = AtomicUsize::new(0);
    static IN_LEN: AtomicUsize = AtomicUsize::new(0);
    static OUT_PTR: AtomicUsize = AtomicUsize::new(0);
    static OUT_LEN: AtomicUsize = AtomicUsize::new(0);
    static R_STATUS: AtomicI32 = AtomicI32::new(99);
    static R_IN: AtomicUsize = AtomicUsize::new(0);
    static R_OUT: AtomicUsize = AtomicUsize::new(0);
    static FLUSH: AtomicI32 = AtomicI32::new(99);

    fn any_status() -> TDEFLStatus {
        let s: u8 = kani::any();
        match s % 4 { 0 => TDEFLStatus::BadParam, 1 => TDEFLStatus::PutBufFailed, 2 => TDEFLStatus::Okay, _ => TDEFLStatus::Done }
    }
    /// M-compress for the C shim: records the slices it is handed and touches their extreme bytes ("guard page")
    fn model_compress(d: &mut CompressorOxide, in_buf: &[u8], out_buf: &mut [u8], flush: TDEFLFlush) -> (TDEFLStatus, usize, usize) {
        CALLS_BUF.fetch_add(1, Relaxed);
        IN_PTR.store(in_buf.as_ptr() as usize, Relaxed); IN_LEN.store(in_buf.len(), Relaxed);
        OUT_PTR.store(out_buf.as_ptr() as usize, Relaxed); OUT_LEN.store(out_buf.len(), Relaxed);
        FLUSH.store(flush as i32, Relaxed);
        if !in_buf.is_empty() { let _ = in_buf[in_buf.len() - 1]; let _ = in_buf[0]; }
        if !out_buf.is_empty() { let k = out_buf.len() - 1; out_buf[k] = 0x5A; out_buf[0] = 0x5A; }
        let st = any_status();
        let c: usize = kani::any();
        let w: usize = kani::any();
        kani::assume(c <= in_buf.len() && w <= out_buf.len());
        R_STATUS.store(st as i32, Relaxed); R_IN.store(c, Relaxed); R_OUT.store(w, Relaxed);
        (st, c, w)
    }
    fn model_compress_to_output(d: &mut CompressorOxide, in_buf: &[u8], flush: TDEFLFlush, mut callback_func: impl FnMut(&[u8]) -> bool) -> (TDEFLStatus, usize) {
        CALLS_OUT.fetch_add(1, Relaxed);
        IN_PTR.store(in_buf.as_ptr() as usize, Relaxed); IN_LEN.store(in_buf.len(), Relaxed);
        FLUSH.store(flush as i32, Relaxed);
        if !in_buf.is_empty() { let _ = in_buf[in_buf.len() - 1]; let _ = in_buf[0]; }
        let st = any_status();
        let c: usize = kani::any();
        kani::assume(c <= in_buf.len());
        R_STATUS.store(st as i32, Relaxed); R_IN.store(c, Relaxed); R_OUT.store(0, Relaxed);
        (st, c)
    }
    fn model_catch_unwind<F: FnOnce() -> R + std::panic::UnwindSafe, R>(f: F) -> std::thread::Result<R> { Ok(f()) }
    unsafe extern "C" fn some_putter(_b: *const c_void, _l: c_int, _u: *mut c_void) -> i32 { 1 }
    unsafe extern "C" fn other_putter(_b: *const c_void, _l: c_int, _u: *mut c_void) -> i32 { 0 }

    fn status_code(s: &tdefl_status) -> i32 {
        match s { tdefl_status::TDEFL_STATUS_BAD_PARAM => -2, tdefl_status::TDEFL_STATUS_PUT_BUF_FAILED => -1, tdefl_status::TDEFL_STATUS_OKAY => 0, tdefl_status::TDEFL_STATUS_DONE => 1 }
    }

    // ------------------------------------------------------------------
    // tdefl_init: (re-)initialisation installs exactly the sink the caller names -- none when the callback is NULL
    // (a stale callback from an earlier initialisation would make buffer-mode calls fail / write through it)
    // ------------------------------------------------------------------
    #[kani::proof]
    #[kani::stub(catch_unwind, model_catch_unwind)]
    fn k_capi_tdefl_init() {
        let mut user_old = 0u8;
        let mut user_new = 0u8;
        let stale: bool = kani::any();
        let mut c = Compressor { inner: None, callback: if stale { Some(CallbackFunc { put_buf_func: other_putter, put_buf_user: &mut user_old as *mut u8 as *mut c_void }) } else { None } };
        let with_cb: bool = kani::any();
        let flags: c_int = kani::any();
        let f: tdefl_put_buf_func_ptr = if with_cb { Some(some_putter) } else { None };
        let st = unsafe { tdefl_init(Some(&mut c), f, &mut user_new as *mut u8 as *mut c_void, flags) };
        assert!(status_code(&st) == 0, "OBL:tdefl.init_reports_okay [C17]");
        assert!(c.inner.is_some(), "OBL:tdefl.init_creates_the_compressor [C17]");
        assert!(c.callback.is_some() == with_cb, "OBL:tdefl.init_with_null_callback_selects_buffer_mode_even_on_reinit [C17]");
        if let Some(cb) = c.callback.as_ref() {
            assert!(cb.put_buf_user == &mut user_new as *mut u8 as *mut c_void && cb.put_buf_func as usize == some_putter as usize, "OBL:tdefl.init_installs_the_callers_callback_and_user_pointer [C17]");
        }
        assert!(c.flags() == flags, "OBL:tdefl.init_passes_the_flags_through [C17]");
        let none = unsafe { tdefl_init(None, f, core::ptr::null_mut(), flags) };
        assert!(status_code(&none) == -2, "OBL:tdefl.init_null_object_is_bad_param [C17]");
        kani::cover!(stale && !with_cb, "COV:tdefl.reinit_from_callback_to_buffer_mode");
    }

    // ------------------------------------------------------------------
    // tdefl_compress: parameter screening, the Rust call sees exactly the caller's declared ranges, sizes and status
    // handed back unchanged
    // ------------------------------------------------------------------
    #[kani::proof]
    #[kani::stub(compress, model_compress)]
    #[kani::stub(compress_to_output, model_compress_to_output)]
    fn k_capi_tdefl_compress() {
        let mut c = Compressor { inner: Some(CompressorOxide::new(0)), callback: None };
        let mut user = 0u8;
        let cb_mode: bool = kani::any();
        if cb_mode { c.callback = Some(CallbackFunc { put_buf_func: some_putter, put_buf_user: &mut user as *mut u8 as *mut c_void }); }
        let inb = [0u8; 6];
        let mut outb = [0u8; 6];
        let mut in_size: usize = kani::any();
        let mut out_size: usize = kani::any();
        kani::assume(in_size <= 6 && out_size <= 6);
        let (in0, out0) = (in_size, out_size);
        let in_null: bool = kani::any();
        let out_null: bool = kani::any();
        let have_in_size: bool = kani::any();
        let have_out_size: bool = kani::any();
        let fl: u8 = kani::any();
        let flush = match fl % 4 { 0 => tdefl_flush::TDEFL_NO_FLUSH, 1 => tdefl_flush::TDEFL_SYNC_FLUSH, 2 => tdefl_flush::TDEFL_FULL_FLUSH, _ => tdefl_flush::TDEFL_FINISH };
        let want_flush = match fl % 4 { 0 => TDEFLFlush::None, 1 => TDEFLFlush::Sync, 2 => TDEFLFlush::Full, _ => TDEFLFlush::Finish } as i32;
        let in_ptr = if in_null { core::ptr::null() } else { inb.as_ptr() as *const c_void };
        let out_ptr = if out_null { core::ptr::null_mut() } else { outb.as_mut_ptr() as *mut c_void };
        let st = unsafe {
            tdefl_compress(Some(&mut c), in_ptr, if have_in_size { Some(&mut in_size) } else { None }, out_ptr,
                           if have_out_size { Some(&mut out_size) } else { None }, flush)
        };
        let code = status_code(&st);
        let eff_in = if have_in_size { in0 } else { 0 };
        let eff_out = if have_out_size { out0 } else { 0 };
        let called = CALLS_BUF.load(Relaxed) + CALLS_OUT.load(Relaxed);
        let bad = (eff_in > 0 && in_null) || (!cb_mode && eff_out > 0 && out_null) || (cb_mode && (eff_out > 0 || !out_null));
        if bad {
            assert!(code == -2 && called == 0, "OBL:tdefl.unusable_buffers_are_bad_param_without_compressing [C17]");
            assert!((!have_in_size || in_size == 0) && (!have_out_size || out_size == 0), "OBL:tdefl.bad_param_zeroes_the_size_outputs [C17]");
        } else {
            assert!(called == 1 && (CALLS_OUT.load(Relaxed) == 1) == cb_mode, "OBL:tdefl.buffer_mode_iff_no_callback_installed [C17]");
            assert!(IN_LEN.load(Relaxed) == eff_in && (eff_in == 0 || IN_PTR.load(Relaxed) == inb.as_ptr() as usize), "OBL:tdefl.rust_call_sees_exactly_the_declared_input_range [C17]");
            if !cb_mode {
                assert!(OUT_LEN.load(Relaxed) == eff_out && (eff_out == 0 || OUT_PTR.load(Relaxed) == outb.as_ptr() as usize), "OBL:tdefl.rust_call_sees_exactly_the_declared_output_range [C17]");
            }
            assert!(FLUSH.load(Relaxed) == want_flush, "OBL:tdefl.flush_mode_mapped_one_to_one [C17]");
            assert!(code == match R_STATUS.load(Relaxed) { x if x == TDEFLStatus::BadParam as i32 => -2, x if x == TDEFLStatus::PutBufFailed as i32 => -1, x if x == TDEFLStatus::Okay as i32 => 0, _ => 1 },
                "OBL:tdefl.status_is_the_rust_status [C17]");
            assert!((!have_in_size || in_size == R_IN.load(Relaxed)) && (!have_out_size || out_size == R_OUT.load(Relaxed)), "OBL:tdefl.size_outputs_are_the_rust_counts [C17]");
        }
        let none = unsafe { tdefl_compress(None, in_ptr, Some(&mut in_size), out_ptr, Some(&mut out_size), tdefl_flush::TDEFL_FINISH) };
        assert!(status_code(&none) == -2 && in_size == 0 && out_size == 0, "OBL:tdefl.null_object_is_bad_param_with_zero_sizes [C17]");
        kani::cover!(!bad && cb_mode, "COV:tdefl.callback_mode_call");
        kani::cover!(!bad && !cb_mode && eff_out > 0, "COV:tdefl.buffer_mode_call");
    }

    // ------------------------------------------------------------------
    // output_buffer_putter: fixed buffer -- never writes past capacity, refuses instead; growable -- contents kept
    // ------------------------------------------------------------------
    #[kani::proof]
    #[kani::unwind(10)]
    fn k_capi_output_buffer_putter_fixed() {
        let mut dst = [0xEEu8; 8];
        let cap: usize = kani::any();
        let size: usize = kani::any();
        kani::assume(cap <= 8 && size <= cap);
        let mut user = BufferUser { size, capacity: cap, buf: dst.as_mut_ptr(), expandable: false };
        let src: [u8; 4] = kani::any();
        let len: c_int = kani::any();
        kani::assume(len >= 0 && len <= 4);
        let r = unsafe { output_buffer_putter(src.as_ptr() as *const c_void, len, &mut user as *mut BufferUser as *mut c_void) };
        if size + len as usize <= cap {
            assert!(r != 0 && user.size == size + len as usize, "OBL:tdefl.putter_appends_when_it_fits [C17]");
            let k: usize = kani::any();
            kani::assume(k < 8);
            if k >= size && k < size + len as usize { assert!(dst[k] == src[k - size], "OBL:tdefl.putter_copies_the_bytes_in_order [C17]"); }
            else { assert!(dst[k] == 0xEE, "OBL:tdefl.putter_leaves_other_bytes_untouched [C17 C08]"); }
        } else {
            assert!(r == 0 && user.size == size, "OBL:tdefl.putter_refuses_what_does_not_fit_a_fixed_buffer [C17]");
            let k: usize = kani::any();
            kani::assume(k < 8);
            assert!(dst[k] == 0xEE, "OBL:tdefl.putter_refusal_writes_nothing [C17 C08]");
        }
        assert!(user.capacity == cap && user.buf == dst.as_mut_ptr(), "OBL:tdefl.putter_fixed_buffer_never_reallocated [C17]");
        let none = unsafe { output_buffer_putter(src.as_ptr() as *const c_void, len, core::ptr::null_mut()) };
        assert!(none == 0, "OBL:tdefl.putter_null_user_refused [C17]");
        kani::cover!(size + len as usize > cap, "COV:tdefl.putter_overflow_refused");
    }

    // ------------------------------------------------------------------
    // one-shot helpers: tdefl_compress_mem_to_mem / _to_heap on top of tdefl_compress_mem_to_output and the putter.
    // compress_to_output is replaced by a model that delivers up to two chunks (symbolic lengths) of a known
    // pattern through the REAL closure -> the REAL extern "C" putter -> the caller's buffer.
    // ------------------------------------------------------------------
    static CHUNK_SUM: AtomicUsize = AtomicUsize::new(0);
    static ALL_TAKEN: AtomicUsize = AtomicUsize::new(0);
    const PATTERN: [u8; 8] = [0xA0, 0xA1, 0xA2, 0xA3, 0xA4, 0xA5, 0xA6, 0xA7];
    fn model_compress_to_output_chunks(d: &mut CompressorOxide, in_buf: &[u8], flush: TDEFLFlush, mut callback_func: impl FnMut(&[u8]) -> bool) -> (TDEFLStatus, usize) {
        CALLS_OUT.fetch_add(1, Relaxed);
        IN_PTR.store(in_buf.as_ptr() as usize, Relaxed); IN_LEN.store(in_buf.len(), Relaxed);
        FLUSH.store(flush as i32, Relaxed);
        if !in_buf.is_empty() { let _ = in_buf[in_buf.len() - 1]; let _ = in_buf[0]; }
        let n1: usize = kani::any();
        let n2: usize = kani::any();
        kani::assume(n1 <= 4 && n2 <= 4);
        let mut ok = callback_func(&PATTERN[..n1]);
        if ok { CHUNK_SUM.fetch_add(n1, Relaxed); ok = callback_func(&PATTERN[n1..n1 + n2]); if ok { CHUNK_SUM.fetch_add(n2, Relaxed); } }
        ALL_TAKEN.store(ok as usize, Relaxed);
        if ok { (TDEFLStatus::Done, in_buf.len()) } else { (TDEFLStatus::PutBufFailed, 0) }
    }

    /// call-site contract of tdefl_compress_mem_to_output for the two wrappers below (its own body moves a whole
    /// compressor object into malloc'ed memory, which CBMC does not finish in 15 min): delivers up to two chunks
    /// through the putter it is handed, succeeds iff the putter took both
    unsafe extern "C" fn model_mem_to_output(buf: *const c_void, buf_len: usize, put_buf_func: tdefl_put_buf_func_ptr, put_buf_user: *mut c_void, flags: c_int) -> c_int {
        CALLS_OUT.fetch_add(1, Relaxed);
        IN_PTR.store(buf as usize, Relaxed); IN_LEN.store(buf_len, Relaxed);
        FLUSH.store(TDEFLFlush::Finish as i32, Relaxed);
        let f = match put_buf_func { Some(f) => f, None => return 0 };
        let n1: usize = kani::any();
        let n2: usize = kani::any();
        kani::assume(n1 <= 4 && n2 <= 4);
        let mut ok = f(PATTERN.as_ptr() as *const c_void, n1 as c_int, put_buf_user) != 0;
        if ok { CHUNK_SUM.fetch_add(n1, Relaxed); ok = f(PATTERN.as_ptr().add(n1) as *const c_void, n2 as c_int, put_buf_user) != 0; if ok { CHUNK_SUM.fetch_add(n2, Relaxed); } }
        ALL_TAKEN.store(ok as usize, Relaxed);
        ok as c_int
    }

    #[kani::proof]
    #[kani::unwind(10)]
    #[kani::stub(tdefl_compress_mem_to_output, model_mem_to_output)]
    fn k_capi_tdefl_mem_to_mem() {
        let src = [0u8; 6];
        let src_len: usize = kani::any();
        kani::assume(src_len <= 6);
        let mut dst = [0xEEu8; 8];
        let out_len: usize = kani::any();
        kani::assume(out_len <= 6);
        let flags: c_int = kani::any();
        let n = unsafe { tdefl_compress_mem_to_mem(dst.as_mut_ptr() as *mut c_void, out_len, src.as_ptr() as *const c_void, src_len, flags) };
        assert!(CALLS_OUT.load(Relaxed) == 1, "OBL:tdefl.one_shot_is_a_single_call [C17]");
        assert!(IN_LEN.load(Relaxed) == src_len && (src_len == 0 || IN_PTR.load(Relaxed) == src.as_ptr() as usize), "OBL:tdefl.one_shot_sees_exactly_the_declared_input_range [C17]");
        let sum = CHUNK_SUM.load(Relaxed);
        if ALL_TAKEN.load(Relaxed) == 1 {
            assert!(n == sum && n <= out_len, "OBL:tdefl.mem_to_mem_returns_the_compressed_length_within_the_declared_buffer [C17]");
        } else {
            assert!(n == 0, "OBL:tdefl.mem_to_mem_returns_zero_when_the_output_does_not_fit [C17]");
        }
        let k: usize = kani::any();
        kani::assume(k < 8);
        if k >= out_len { assert!(dst[k] == 0xEE, "OBL:tdefl.mem_to_mem_never_writes_past_the_declared_output_length [C17 C08]"); }
        if k < sum { assert!(dst[k] == PATTERN[k], "OBL:tdefl.mem_to_mem_output_is_the_rust_output_in_order [C17]"); }
        let z = unsafe { tdefl_compress_mem_to_mem(core::ptr::null_mut(), out_len, src.as_ptr() as *const c_void, src_len, flags) };
        assert!(z == 0 && CALLS_OUT.load(Relaxed) == 1, "OBL:tdefl.mem_to_mem_null_output_is_refused_without_compressing [C17]");
        kani::cover!(n > 0, "COV:tdefl.mem_to_mem_success");
        kani::cover!(ALL_TAKEN.load(Relaxed) == 0 && sum > 0, "COV:tdefl.mem_to_mem_second_chunk_refused");
    }

    #[kani::proof]
    #[kani::unwind(10)]
    #[kani::stub(tdefl_compress_mem_to_output, model_mem_to_output)]
    fn k_capi_tdefl_mem_to_heap() {
        let src = [0u8; 6];
        let src_len: usize = kani::any();
        kani::assume(src_len <= 6);
        let mut out_len: usize = kani::any();
        let flags: c_int = kani::any();
        let p = unsafe { tdefl_compress_mem_to_heap(src.as_ptr() as *const c_void, src_len, &mut out_len, flags) };
        assert!(IN_LEN.load(Relaxed) == src_len && (src_len == 0 || IN_PTR.load(Relaxed) == src.as_ptr() as usize), "OBL:tdefl.heap_one_shot_sees_exactly_the_declared_input_range [C17]");
        let sum = CHUNK_SUM.load(Relaxed);
        if p.is_null() {
            assert!(out_len == 0, "OBL:tdefl.heap_failure_returns_null_and_zero_length [C17]");
        } else {
            assert!(ALL_TAKEN.load(Relaxed) == 1 && out_len == sum, "OBL:tdefl.heap_success_returns_exactly_the_compressed_length [C17]");
            let k: usize = kani::any();
            kani::assume(k < 8);
            if k < sum { assert!(unsafe { *(p as *const u8).add(k) } == PATTERN[k], "OBL:tdefl.heap_output_is_the_rust_output_in_order [C17]"); }
            unsafe { crate::miniz_def_free_func(core::ptr::null_mut(), p) };
        }
        let q = unsafe { tdefl_compress_mem_to_heap(src.as_ptr() as *const c_void, src_len, core::ptr::null_mut(), flags) };
        assert!(q.is_null(), "OBL:tdefl.heap_null_length_pointer_is_refused [C17]");
        kani::cover!(!p.is_null() && sum > 0, "COV:tdefl.heap_success");
    }

    //@PLAYBACK@
}
