#[cfg(kani)]
#[allow(unused_imports, dead_code, unused_variables, unused_mut, clippy::all)]
mod verif_capi_c_export {
    use super::*;
    use core::sync::atomic::{AtomicUsize, Ordering::Relaxed};

    static A_CALLS: AtomicUsize = AtomicUsize::new(0);
    static A_PTR: AtomicUsize = AtomicUsize::new(0);
    static A_LEN: AtomicUsize = AtomicUsize::new(usize::MAX);
    static A_SEED: AtomicUsize = AtomicUsize::new(0);
    /// checksum engines behind a recording model (the algorithms live in adler2 / crc32fast and are not verified
    /// here): records seed and slice, touches the slice's extreme bytes, returns an arbitrary value
    fn model_checksum(seed: c_uint, data: &[u8]) -> c_uint {
        A_CALLS.fetch_add(1, Relaxed);
        A_PTR.store(data.as_ptr() as usize, Relaxed); A_LEN.store(data.len(), Relaxed); A_SEED.store(seed as usize, Relaxed);
        if !data.is_empty() { let _ = data[0]; let _ = data[data.len() - 1]; }
        kani::any()
    }

    // ------------------------------------------------------------------
    // mz_adler32 / mz_crc32: a NULL buffer asks for the initial value; ANY other call -- an empty chunk included --
    // continues the running checksum over exactly the declared bytes (so that any split of the data, empty pieces
    // included, gives the result of one pass)
    // ------------------------------------------------------------------
    #[kani::proof]
    #[kani::stub(mz_adler32_oxide, model_checksum)]
    #[kani::stub(mz_crc32_oxide, model_checksum)]
    fn k_capi_checksum_wrappers() {
        let buf = [0u8; 6];
        let len: usize = kani::any();
        kani::assume(len <= 6);
        let seed: u32 = kani::any();
        let which: bool = kani::any();
        let null: bool = kani::any();
        let p = if null { core::ptr::null() } else { buf.as_ptr() };
        let r = unsafe { if which { mz_adler32(seed as c_ulong, p, len) } else { mz_crc32(seed as c_ulong, p, len) } };
        if null {
            assert!(A_CALLS.load(Relaxed) == 0 && r == if which { 1 } else { 0 }, "OBL:capisum.null_buffer_returns_the_initial_value [C16 C17]");
        } else {
            assert!(A_CALLS.load(Relaxed) == 1 && A_SEED.load(Relaxed) == seed as usize, "OBL:capisum.running_value_is_continued_also_for_an_empty_chunk [C16]");
            assert!(A_PTR.load(Relaxed) == buf.as_ptr() as usize && A_LEN.load(Relaxed) == len, "OBL:capisum.exactly_the_declared_bytes_are_hashed [C16 C17]");
        }
        kani::cover!(!null && len == 0, "COV:capisum.empty_chunk");
    }

    //@PLAYBACK@
}
