#[cfg(kani)]
#[allow(unused_imports, dead_code, unused_variables, unused_mut, clippy::all)]
mod verif_deflate_zlib {
    use super::*;
    use crate::deflate::core::deflate_flags::*;
    use crate::deflate::core::NUM_PROBES;

//@SPEC@

    /// add_fcheck: pre flg & 31 == 0 (callers pass level << 6). Post: FCHECK makes CMF*256+FLG a multiple of 31,
    /// the top three bits (FLEVEL, FDICT) are preserved, no overflow.
    #[kani::proof]
    fn k_add_fcheck() {
        let cmf: u8 = kani::any();
        let flg: u8 = kani::any();
        kani::assume(flg & 31 == 0);
        let r = add_fcheck(cmf, flg);
        assert!((cmf as u32 * 256 + r as u32) % 31 == 0, "OBL:zhdr.fcheck_multiple_of_31 [C09]");
        assert!(r & 0xE0 == flg & 0xE0, "OBL:zhdr.fcheck_preserves_flevel_fdict [C09]");
    }

    /// header_from_flags over all flag words x all window_bits the constructors can store (<= 15, K-def-flags).
    #[kani::proof]
    fn k_header_from_flags() {
        let flags: u32 = kani::any();
        let wb: u8 = kani::any();
        kani::assume(wb <= 15);
        let h = header_from_flags(flags, wb);
        let (cmf, flg) = (h[0] as u32, h[1] as u32);
        assert!(rfc_zlib_hdr_ok(cmf, flg), "OBL:zhdr.header_valid_per_rfc1950 [C09]");
        assert!(cmf & 15 == 8, "OBL:zhdr.method_is_deflate [C09]");
        assert!(flg & 0x20 == 0, "OBL:zhdr.no_preset_dictionary [C09]");
        let w = if wb < 8 { 8 } else { wb as u32 };
        assert!(cmf >> 4 == w - 8, "OBL:zhdr.cinfo_is_max_wb_8_minus_8 [C09 C11]");
        assert!((1u32 << ((cmf >> 4) + 8)) == (1u32 << w), "OBL:zhdr.declared_window_is_2_pow_max_wb_8 [C11]");
        assert!(flg >> 6 == zlib_level_from_flags(flags) as u32, "OBL:zhdr.flevel_field [C09]");
        kani::cover!(wb < 8, "COV:zhdr.wb_below_8");
        kani::cover!(wb == 15, "COV:zhdr.wb_15");
    }

    #[kani::proof]
    fn k_zlib_level_from_flags() {
        let flags: u32 = kani::any();
        let l = zlib_level_from_flags(flags);
        assert!(l <= 3, "OBL:zhdr.flevel_two_bits [C09]");
        let probes = flags & 0xFFF;
        let fastish = flags & TDEFL_GREEDY_PARSING_FLAG != 0 || flags & TDEFL_RLE_MATCHES != 0;
        let want = if fastish { if probes <= 1 { 0 } else { 1 } } else if probes >= 768 { 3 } else { 2 };
        assert!(l == want, "OBL:zhdr.flevel_classes [C09]");
    }

    //@PLAYBACK@
}
