    // ---- independent oracle: tables typed from RFC 1951 §3.2.5-3.2.7 and RFC 1950 §2.2 (shares nothing with the crate) ----
    #[allow(dead_code)]
    pub(super) const RFC_LEN_BASE: [u16; 29] = [
        3, 4, 5, 6, 7, 8, 9, 10, 11, 13, 15, 17, 19, 23, 27, 31, 35, 43, 51, 59, 67, 83, 99, 115, 131, 163, 195, 227, 258,
    ];
    #[allow(dead_code)]
    pub(super) const RFC_LEN_EXTRA: [u8; 29] = [
        0, 0, 0, 0, 0, 0, 0, 0, 1, 1, 1, 1, 2, 2, 2, 2, 3, 3, 3, 3, 4, 4, 4, 4, 5, 5, 5, 5, 0,
    ];
    #[allow(dead_code)]
    pub(super) const RFC_DIST_BASE: [u16; 30] = [
        1, 2, 3, 4, 5, 7, 9, 13, 17, 25, 33, 49, 65, 97, 129, 193, 257, 385, 513, 769, 1025, 1537, 2049, 3073, 4097, 6145,
        8193, 12289, 16385, 24577,
    ];
    #[allow(dead_code)]
    pub(super) const RFC_DIST_EXTRA: [u8; 30] = [
        0, 0, 0, 0, 1, 1, 2, 2, 3, 3, 4, 4, 5, 5, 6, 6, 7, 7, 8, 8, 9, 9, 10, 10, 11, 11, 12, 12, 13, 13,
    ];
    /// Order in which code-length code lengths are transmitted (RFC 1951 §3.2.7).
    #[allow(dead_code)]
    pub(super) const RFC_CL_ORDER: [u8; 19] = [16, 17, 18, 0, 8, 7, 9, 6, 10, 5, 11, 4, 12, 3, 13, 2, 14, 1, 15];
    /// Fixed Huffman code lengths (RFC 1951 §3.2.6).
    #[allow(dead_code)]
    pub(super) fn rfc_fixed_litlen_len(sym: usize) -> u8 {
        if sym < 144 { 8 } else if sym < 256 { 9 } else if sym < 280 { 7 } else { 8 }
    }
    /// RFC 1950 §2.2: CM = 8, CINFO <= 7, FDICT clear (no preset dictionary support), (CMF*256+FLG) % 31 == 0.
    #[allow(dead_code)]
    pub(super) fn rfc_zlib_hdr_ok(cmf: u32, flg: u32) -> bool {
        (cmf & 15) == 8 && (cmf >> 4) <= 7 && (flg & 0x20) == 0 && (cmf * 256 + flg) % 31 == 0
    }
    /// the length (3..=258) a (symbol, extra bits) pair denotes, None for undefined symbols
    #[allow(dead_code)]
    pub(super) fn rfc_len_of(sym: u32, extra: u32) -> Option<u32> {
        if sym < 257 || sym > 285 { return None; }
        let i = (sym - 257) as usize;
        if extra >= (1u32 << RFC_LEN_EXTRA[i]) { return None; }
        Some(RFC_LEN_BASE[i] as u32 + extra)
    }
    #[allow(dead_code)]
    pub(super) fn rfc_dist_of(sym: u32, extra: u32) -> Option<u32> {
        if sym > 29 { return None; }
        let i = sym as usize;
        if extra >= (1u32 << RFC_DIST_EXTRA[i]) { return None; }
        Some(RFC_DIST_BASE[i] as u32 + extra)
    }
