#[cfg(kani)]
#[allow(unused_imports, dead_code, unused_variables, unused_mut, clippy::all)]
mod verif_deflate_stream {
    use super::*;
    use core::sync::atomic::{AtomicU32, AtomicUsize, Ordering::Relaxed};

    static CALLS: AtomicUsize = AtomicUsize::new(0);
    static LAST_FLUSH: AtomicU32 = AtomicU32::new(99);
    static SUM_IN: AtomicUsize = AtomicUsize::new(0);
    static SUM_OUT: AtomicUsize = AtomicUsize::new(0);

    fn any_tdefl_status() -> TDEFLStatus {
        let s: u8 = kani::any();
        kani::assume(s < 4);
        match s { 0 => TDEFLStatus::BadParam, 1 => TDEFLStatus::PutBufFailed, 2 => TDEFLStatus::Okay, _ => TDEFLStatus::Done }
    }
    fn any_mzflush() -> MZFlush {
        let s: u8 = kani::any();
        kani::assume(s < 6);
        match s { 0 => MZFlush::None, 1 => MZFlush::Partial, 2 => MZFlush::Sync, 3 => MZFlush::Full, 4 => MZFlush::Finish, _ => MZFlush::Block }
    }

    /// M-compress : contract model of deflate::core::compress.
    /// Proved clauses (K-dispatch): counts <= offered; Done only after Finish; status latched in prev_return_status.
    /// Assumed clause (engine level, DESIGN.md §3.5): progress - an Okay return with output space left and work
    /// remaining has consumed or produced at least one byte.
    fn model_compress(d: &mut CompressorOxide, in_buf: &[u8], out_buf: &mut [u8], flush: TDEFLFlush) -> (TDEFLStatus, usize, usize) {
        assert!(d.params.prev_return_status != TDEFLStatus::Done || CALLS.load(Relaxed) > 0, "OBL:deflate.never_calls_compress_when_already_done [C14]");
        CALLS.fetch_add(1, Relaxed);
        LAST_FLUSH.store(flush as u32, Relaxed);
        let st = any_tdefl_status();
        let i: usize = kani::any();
        let o: usize = kani::any();
        kani::assume(i <= in_buf.len() && o <= out_buf.len());
        kani::assume(st != TDEFLStatus::Done || flush == TDEFLFlush::Finish);
        // progress (assumed): if the engine returns Okay although output space is left and work remains
        // (input left, or Finish requested), it has consumed or produced at least one byte
        kani::assume(!(st == TDEFLStatus::Okay && o < out_buf.len() && (i < in_buf.len() || flush == TDEFLFlush::Finish)) || i > 0 || o > 0);
        kani::assume(st != TDEFLStatus::BadParam || (i == 0 && o == 0));
        d.params.prev_return_status = st;
        SUM_IN.fetch_add(i, Relaxed);
        SUM_OUT.fetch_add(o, Relaxed);
        (st, i, o)
    }

    const CAP: usize = 3;

    #[kani::proof]
    #[kani::stub(compress, model_compress)]
    #[kani::unwind(9)]
    fn k_deflate_protocol() {
        let mut d = CompressorOxide::default();
        d.params.prev_return_status = any_tdefl_status();
        let prev = d.params.prev_return_status;
        let inb: [u8; CAP] = kani::any();
        let inl: usize = kani::any();
        kani::assume(inl <= CAP);
        let mut outb: [u8; CAP] = kani::any();
        let out0 = outb;
        let outl: usize = kani::any();
        kani::assume(outl <= CAP);
        let flush = any_mzflush();
        let res = deflate(&mut d, &inb[..inl], &mut outb[..outl], flush);
        let calls = CALLS.load(Relaxed);

        assert!(res.bytes_consumed <= inl && res.bytes_written <= outl, "OBL:deflate.counts_le_offered [C14 C02]");
        assert!(res.bytes_consumed == SUM_IN.load(Relaxed) && res.bytes_written == SUM_OUT.load(Relaxed), "OBL:deflate.counts_are_sums_of_engine_counts [C14 C02]");
        if outl == 0 {
            assert!(res.status == Err(MZError::Buf) && calls == 0 && d.params.prev_return_status == prev, "OBL:deflate.empty_output_refused_without_side_effects [C14]");
            return;
        }
        if prev == TDEFLStatus::Done {
            assert!(calls == 0 && res.bytes_consumed == 0 && res.bytes_written == 0 && outb == out0, "OBL:deflate.after_stream_end_nothing_written [C14]");
            assert!(res.status == if flush == MZFlush::Finish { Ok(MZStatus::StreamEnd) } else { Err(MZError::Buf) }, "OBL:deflate.after_stream_end_finish_repeats_stream_end_else_buf_error [C14]");
            return;
        }
        assert!(calls >= 1, "OBL:deflate.calls_engine [C14]");
        let want = match flush { MZFlush::None => 0, MZFlush::Partial => 1, MZFlush::Sync => 2, MZFlush::Full => 3, MZFlush::Finish => 4, _ => 0 };
        assert!(LAST_FLUSH.load(Relaxed) == want, "OBL:deflate.flush_mode_mapping [C12 C14]");
        let last = d.params.prev_return_status;
        match res.status {
            Ok(MZStatus::StreamEnd) => assert!(last == TDEFLStatus::Done && flush == MZFlush::Finish, "OBL:deflate.stream_end_only_after_finish_and_done [C14]"),
            Err(MZError::Param) => assert!(last == TDEFLStatus::BadParam, "OBL:deflate.param_error_iff_badparam [C14]"),
            Err(MZError::Stream) => assert!(last == TDEFLStatus::PutBufFailed, "OBL:deflate.stream_error_iff_putbuf_failed [C14]"),
            Ok(MZStatus::Ok) => {
                assert!(last == TDEFLStatus::Okay, "OBL:deflate.ok_only_when_engine_okay [C14]");
                if flush == MZFlush::Finish {
                    assert!(res.bytes_written == outl, "OBL:deflate.finish_works_until_stream_end_or_output_full [C14]");
                } else {
                    assert!(res.bytes_written == outl || res.bytes_consumed == inl, "OBL:deflate.ok_means_output_full_or_input_exhausted [C14]");
                    assert!(res.bytes_written == outl || flush != MZFlush::None || res.bytes_written > 0 || res.bytes_consumed > 0, "OBL:deflate.ok_without_flush_made_progress [C14]");
                }
            }
            Err(MZError::Buf) => assert!(last == TDEFLStatus::Okay && flush == MZFlush::None && res.bytes_written == 0 && res.bytes_consumed == 0 && inl == 0,
                "OBL:deflate.buf_error_only_when_nothing_to_do [C14]"),
            _ => assert!(false, "OBL:deflate.only_five_outcomes [C14]"),
        }
        kani::cover!(res.status == Ok(MZStatus::StreamEnd), "COV:deflate.stream_end");
        kani::cover!(calls >= 2, "COV:deflate.loop_iterates");
        kani::cover!(res.status == Err(MZError::Buf), "COV:deflate.buf");
    }

    //@PLAYBACK@
}
