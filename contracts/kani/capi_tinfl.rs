#[cfg(kani)]
#[allow(unused_imports, dead_code, unused_variables, unused_mut, clippy::all)]
mod verif_capi_tinfl {
    use super::*;
    use core::sync::atomic::{AtomicUsize, AtomicI32, Ordering::Relaxed};

    static CALLS: AtomicUsize = AtomicUsize::new(0);
    static SRC_BASE: AtomicUsize = AtomicUsize::new(0);
    static SRC_END: AtomicUsize = AtomicUsize::new(0);
    static SUM_IN: AtomicUsize = AtomicUsize::new(0);
    static SUM_OUT: AtomicUsize = AtomicUsize::new(0);
    static LAST_STATUS: AtomicI32 = AtomicI32::new(99);
    static LAST_FLAGS: AtomicUsize = AtomicUsize::new(0);
    static IN_PTR: AtomicUsize = AtomicUsize::new(0);
    static IN_LEN: AtomicUsize = AtomicUsize::new(0);
    static OUT_PTR: AtomicUsize = AtomicUsize::new(0);
    static OUT_LEN: AtomicUsize = AtomicUsize::new(0);
    static OUT_POS: AtomicUsize = AtomicUsize::new(0);

    fn any_status(force_end: bool) -> TINFLStatus {
        let s: u8 = kani::any();
        match if force_end { s % 3 } else { s % 6 } {
            0 => TINFLStatus::Done,
            1 => TINFLStatus::Failed,
            2 => TINFLStatus::FailedCannotMakeProgress,
            3 => TINFLStatus::HasMoreOutput,
            4 => TINFLStatus::Adler32Mismatch,
            _ => TINFLStatus::HasMoreOutput,
        }
    }
    /// M-decompress for the C shim: records the slices it is handed and touches their extreme bytes, so that a slice
    /// wider than the caller's declared range trips CBMC's pointer checks ("guard page")
    fn model_decompress(r: &mut DecompressorOxide, in_buf: &[u8], out: &mut [u8], out_pos: usize, flags: u32) -> (TINFLStatus, usize, usize) {
        let n = CALLS.fetch_add(1, Relaxed);
        IN_PTR.store(in_buf.as_ptr() as usize, Relaxed); IN_LEN.store(in_buf.len(), Relaxed);
        OUT_PTR.store(out.as_ptr() as usize, Relaxed); OUT_LEN.store(out.len(), Relaxed); OUT_POS.store(out_pos, Relaxed);
        LAST_FLAGS.store(flags as usize, Relaxed);
        assert!(out_pos <= out.len(), "OBL:tinfl.call_pre_out_pos_in_range [C17 C05]");
        if SRC_END.load(Relaxed) != 0 {
            // every call sees exactly the not-yet-consumed rest of the caller's source range, never a byte beyond it
            assert!(in_buf.as_ptr() as usize + in_buf.len() == SRC_END.load(Relaxed) && in_buf.as_ptr() as usize == SRC_BASE.load(Relaxed) + SUM_IN.load(Relaxed),
                "OBL:tinfl.input_slice_is_exactly_the_unconsumed_rest_of_the_declared_range [C17]");
        }
        if !in_buf.is_empty() { let _ = in_buf[in_buf.len() - 1]; let _ = in_buf[0]; }
        if !out.is_empty() { let k = out.len() - 1; out[k] = 0x5A; }
        let st = any_status(n >= 2);
        let c: usize = kani::any();
        let w: usize = kani::any();
        kani::assume(c <= in_buf.len() && w <= out.len() - out_pos);
        if st == TINFLStatus::HasMoreOutput { kani::assume(out_pos + w == out.len()); }
        SUM_IN.fetch_add(c, Relaxed); SUM_OUT.fetch_add(w, Relaxed);
        LAST_STATUS.store(st as i32, Relaxed);
        (st, c, w)
    }

    #[kani::proof]
    #[kani::unwind(6)]
    #[kani::stub(decompress, model_decompress)]
    fn k_capi_tinfl_mem_to_heap() {
        let src = [0u8; 6];
        let src_len: usize = kani::any();
        kani::assume(src_len <= 6);
        SRC_BASE.store(src.as_ptr() as usize, Relaxed);
        SRC_END.store(src.as_ptr() as usize + src_len, Relaxed);
        let mut out_len: usize = kani::any();
        let flags: i32 = kani::any();
        let p = unsafe { tinfl_decompress_mem_to_heap(src.as_ptr() as *const c_void, src_len, &mut out_len, flags) };
        let fl = LAST_FLAGS.load(Relaxed) as u32;
        assert!(fl & inflate_flags::TINFL_FLAG_USING_NON_WRAPPING_OUTPUT_BUF != 0 && fl & inflate_flags::TINFL_FLAG_HAS_MORE_INPUT == 0, "OBL:tinfl.heap_decode_is_flat_and_announces_no_more_input [C17]");
        if p.is_null() {
            assert!(out_len == 0, "OBL:tinfl.failure_returns_null_and_zero_length [C17]");
        } else {
            assert!(LAST_STATUS.load(Relaxed) == TINFLStatus::Done as i32 && out_len == SUM_OUT.load(Relaxed), "OBL:tinfl.success_returns_exactly_the_decoded_length [C17]");
            unsafe { crate::miniz_def_free_func(core::ptr::null_mut(), p) };
        }
        kani::cover!(CALLS.load(Relaxed) >= 2, "COV:tinfl.buffer_grows");
        kani::cover!(!p.is_null(), "COV:tinfl.success");
    }

    #[kani::proof]
    #[kani::unwind(6)]
    #[kani::stub(decompress, model_decompress)]
    fn k_capi_tinfl_decompress() {
        SRC_END.store(0, Relaxed);
        let mut r = tinfl_decompressor::default();
        let inb = [0u8; 4];
        let mut outb = [0u8; 8];
        let mut in_size: usize = kani::any();
        kani::assume(in_size <= 4);
        let next_off: usize = kani::any();
        let mut out_size: usize = kani::any();
        // C-side precondition (stated): out_buf_next points into [out_buf_start, out_buf_start + capacity] and
        // *out_buf_size bytes are writable from there
        kani::assume(next_off <= 8 && out_size <= 8 - next_off);
        let (in0, out0) = (in_size, out_size);
        let flags: u32 = kani::any();
        let rc = unsafe { tinfl_decompress(&mut r, inb.as_ptr(), &mut in_size, outb.as_mut_ptr(), outb.as_mut_ptr().add(next_off), &mut out_size, flags) };
        assert!(CALLS.load(Relaxed) == 1, "OBL:tinfl.one_rust_call [C17]");
        assert!(IN_PTR.load(Relaxed) == inb.as_ptr() as usize && IN_LEN.load(Relaxed) == in0, "OBL:tinfl.input_slice_is_the_declared_range [C17]");
        assert!(OUT_PTR.load(Relaxed) == outb.as_ptr() as usize && OUT_LEN.load(Relaxed) == next_off + out0 && OUT_POS.load(Relaxed) == next_off, "OBL:tinfl.output_slice_is_start_to_next_plus_size [C17]");
        assert!(in_size == SUM_IN.load(Relaxed) && out_size == SUM_OUT.load(Relaxed) && rc == LAST_STATUS.load(Relaxed), "OBL:tinfl.counts_and_status_are_the_rust_results [C17 C06]");
        assert!(LAST_FLAGS.load(Relaxed) as u32 == flags, "OBL:tinfl.flags_passed_through [C17]");
    }

    #[kani::proof]
    #[kani::unwind(6)]
    #[kani::stub(decompress, model_decompress)]
    fn k_capi_tinfl_mem_to_mem() {
        SRC_END.store(0, Relaxed);
        let src = [0u8; 4];
        let mut dst = [0u8; 8];
        let (sl, dl): (usize, usize) = (kani::any(), kani::any());
        kani::assume(sl <= 4 && dl <= 8);
        let flags: i32 = kani::any();
        let n = unsafe { tinfl_decompress_mem_to_mem(dst.as_mut_ptr() as *mut c_void, dl, src.as_ptr() as *const c_void, sl, flags) };
        assert!(IN_PTR.load(Relaxed) == src.as_ptr() as usize && IN_LEN.load(Relaxed) == sl && OUT_PTR.load(Relaxed) == dst.as_ptr() as usize && OUT_LEN.load(Relaxed) == dl && OUT_POS.load(Relaxed) == 0,
            "OBL:tinfl.mem_to_mem_slices_are_the_declared_ranges [C17]");
        let done = LAST_STATUS.load(Relaxed) == TINFLStatus::Done as i32;
        assert!(n == if done { SUM_OUT.load(Relaxed) } else { usize::MAX }, "OBL:tinfl.mem_to_mem_returns_length_or_failure_marker [C17]");
        let fl = LAST_FLAGS.load(Relaxed) as u32;
        assert!(fl & inflate_flags::TINFL_FLAG_USING_NON_WRAPPING_OUTPUT_BUF != 0 && fl & inflate_flags::TINFL_FLAG_HAS_MORE_INPUT == 0, "OBL:tinfl.mem_to_mem_is_flat_one_shot [C17]");
    }

    //@PLAYBACK@
}
